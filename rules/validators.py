"""A3 (inventory form): every reader keeps the validations it performs on the reviewed tree - calls to library functions
that can throw on a bad value (check_*, checkLgK, ...) and inline `if (cond) throw` guards (normalised like the structural
triggers: operator, identifiers, constants).  A validation that disappears from a reader is a violation: a corrupted
preamble byte then reaches a shift amount, an allocation size or an index unchecked."""
import json
import os
from astu import struct_like, inline_single_returns, reach_tagged, C, ctxt, gt_pair, eq_const, reach, reach_txt, ctext, strip, walk, txt, short, functions_by, always_throws, stmts_of
from vlib.core import ob, VERIF
import triggers

READER_NAMES = ("deserialize", "deserialize_items", "deserialize_array", "deserialize_compat", "parse", "wrap", "writable_wrap", "newList", "newSet", "newHll",
                "internal_deserialize_or_wrap", "deserialize_v1", "deserialize_v2", "deserialize_v3", "deserialize_v4")


def throwers(fns):
    """patterns of library functions that contain a throw (directly)"""
    res = set()
    for pat, fn in fns.items():
        hit = [False]
        walk(fn["body"], lambda n: hit.__setitem__(0, True) if n.get("k") == "Throw" else None)
        if hit[0]:
            res.add(pat)
    return res


_PV = {}


def _throws(fn):
    hit = [False]
    walk(fn.get("body"), lambda x: hit.__setitem__(0, True) if x.get("k") == "Throw" else None)
    return hit[0]


def is_pure_validator(fn, by_pat, depth=0):
    """the body consists only of `if (cond) throw` guards, calls of other pure validators / check_* functions, declarations of
    locals and a plain return: such a helper is equivalent to its guards written at the call site, whatever it is called"""
    if fn is None or fn.get("body") is None or depth > 3:
        return False
    key = id(fn)
    if key in _PV:
        return _PV[key]
    _PV[key] = False
    n_guard = 0
    for s in stmts_of(fn["body"]):
        k = s.get("k")
        if k == "If" and s.get("e") is None and always_throws(s.get("t")):
            n_guard += 1
        elif k == "Expr" and isinstance(strip(s.get("e")), dict) and strip(s["e"]).get("k") == "Call":
            c = strip(s["e"])
            cal = by_pat.get(c.get("cpat"))
            if cal is not None and is_pure_validator(cal, by_pat, depth + 1):
                n_guard += 1
            elif cal is not None and (c.get("cname") or "").lower().startswith(("check", "validate")) and _throws(cal):
                n_guard += 1     # a named check that is more than a list of guards: stays a `call:` item when seen through
            else:
                return False
        elif k == "Decl":
            continue
        elif k == "Return" and s.get("e") is None:
            continue
        else:
            return False
    _PV[key] = n_guard > 0
    return _PV[key]


_BL = {}


def _bool_locals(fn):
    """decl id -> initialiser for bool locals that are assigned once (at their declaration)"""
    key = id(fn.get("body"))
    if key in _BL and _BL[key][0] is fn.get("body"):
        return _BL[key][1]
    from astu import single_assignment_locals
    decls = {}
    walk(fn.get("body"), lambda n: [decls.__setitem__(v["d"], v) for v in n.get("vars", []) if "d" in v] if n.get("k") == "Decl" else None)
    sal = single_assignment_locals(fn)
    res = {d: e for d, e in sal.items() if (decls.get(d, {}).get("t") or "").replace("const ", "") == "bool"}
    _BL[key] = (fn.get("body"), res)
    return res


def _inline_bools(e, bl, depth=0):
    from vlib import normalize
    if not bl or depth > 4:
        return e
    import copy
    hit = [False]

    def sub(n):
        if isinstance(n, list):
            return [sub(x) for x in n]
        if not isinstance(n, dict):
            return n
        if n.get("k") == "Ref" and n.get("d") in bl:
            hit[0] = True
            return _inline_bools(copy.deepcopy(bl[n["d"]]), bl, depth + 1)
        return {k: sub(v) for k, v in n.items()}
    r = sub(e)
    if not hit[0]:
        return e
    try:
        return normalize.norm_expr(r)      # `!in_range` with in_range = a && b becomes !a || !b again
    except Exception:
        return r


def inlined_guards(fn, by_pat, env=None, depth=0, outer_ctx=(), force=()):
    """(condition node, env, context) of every `if (cond) throw` guard of fn, including those of pure-validator helpers it calls with
    the helper's parameters bound to the caller's arguments; plus ("call", name) for calls of check_* functions that are not pure.
    context: the branch conditions the guard sits under, as (literal, env) pairs - those of the call site included when the guard
    comes from a helper.  force: names of check_* / validate_* helpers of the class to see through as well"""
    env = env if env is not None else triggers.flat_env(fn)
    out = []

    def v(n):
        if n.get("k") == "Call" and n.get("cpat"):
            cal = by_pat.get(n["cpat"])
            helper = cal is not None and cal.get("rect") and cal.get("rect") == fn.get("rect") and cal.get("ret") == "void" and cal.get("body") is not None \
                and (cal.get("access", 2) != 0 or cal.get("rect") in struct_like(by_pat)) and cal.get("name") not in READER_NAMES and _throws(cal) \
                and (not (cal.get("name") or "").lower().startswith(("check", "validate")) or cal.get("name") in force)
            # pure validators, and private void helpers of the reader's own class that reject (a validation loop moved into a
            # helper): their guards count as the reader's, with the parameters bound to the arguments
            if cal is not None and cal is not fn and depth < 3 and (is_pure_validator(cal, by_pat) or helper) and len(cal["params"]) == len(n.get("args", [])):
                cenv = dict(triggers.flat_env(cal))
                for p, a in zip(cal["params"], n["args"]):
                    cenv[p["d"]] = ("expr", a, env)
                call_ctx = [(l, env) for l, o in reach_tagged(fn["body"], n) if o in ("if", "else")]
                out.extend(inlined_guards(cal, by_pat, cenv, depth + 1, tuple(outer_ctx) + tuple(call_ctx), force))
                return
            if (n.get("cname") or "").lower().startswith(("check", "validate")) and cal is not None:
                hit = [False]
                walk(cal.get("body"), lambda x: hit.__setitem__(0, True) if x.get("k") == "Throw" else None)
                if hit[0]:
                    out.append(("call", n["cname"]))
        if n.get("k") == "If" and always_throws(n.get("t")) and n.get("e") is None:
            # the branch conditions the guard sits under belong to it: `if (a && b) throw` == `if (a) { if (b) throw; .. }`
            ctx = [(l, env) for l, o in reach_tagged(fn["body"], n) if o in ("if", "else")]
            # small `return expr;` helpers of the class / of this file read as their expression
            cnd = inline_single_returns(n["c"], by_pat, fn.get("rect"), file=str(fn.get("pat", "")).rsplit(":", 1)[0])
            # a named condition (`const bool too_small = x < MIN; if (too_small || ..) throw`) reads as the condition itself
            cnd = _inline_bools(cnd, _bool_locals(fn))
            # `if (a || b) throw` rejects exactly what `if (a) throw; if (b) throw;` rejects: one guard per disjunct

            def disj(x):
                x0 = strip(x)
                while isinstance(x0, dict) and x0.get("k") == "Paren":
                    x0 = strip(x0.get("e"))
                if isinstance(x0, dict) and x0.get("k") == "Bin" and x0.get("op") == "||":
                    return disj(x0["l"]) + disj(x0["r"])
                return [x]
            for part in disj(cnd):
                out.append((part, env, ctx, list(outer_ctx)))
    walk(fn["body"], v)
    return out


def guard_item(c, env, ctx=()):
    c = strip(c)
    t = txt(c)
    if "good()" in t or "fail()" in t:
        return None
    if ctx:
        ids, consts = [], []
        for x, e in list(ctx) + [(c, env)]:
            triggers.idc(x, e, ids, consts)
        return "guard:complex|%s|%s" % (",".join(sorted(set(str(i) for i in ids if i))), ",".join(str(x) for x in sorted(set(consts), key=lambda x: (str(type(x)), x))))
    if c.get("k") == "Bin" and c.get("op") in triggers.FLIP:
        op, ids, consts, text = triggers.parts(c, env)
        return "guard:%s|%s|%s" % (op, ",".join(ids), ",".join(str(x) for x in consts))
    ids, consts = [], []
    triggers.idc(c, env, ids, consts)
    return "guard:complex|%s|%s" % (",".join(sorted(set(str(i) for i in ids if i))), ",".join(str(x) for x in sorted(set(consts), key=lambda x: (str(type(x)), x))))


def wide_item(c, env, ctx):
    """the form a guard keeps when it moves between a reader and a helper it calls: identifiers, constants and the oriented
    comparison operators of the condition and of every branch condition above it (those of the call site included)"""
    ids, consts, ops = [], [], []

    def lits(x, e):
        triggers.idc(x, e, ids, consts)

        def v(n):
            if n.get("k") == "Bin" and n.get("op") in triggers.FLIP:
                ops.append(triggers.parts(n, e)[0])
            elif n.get("k") == "Un" and n.get("op") == "!":
                ops.append("!")
        walk(x, v)
    for x, e in list(ctx) + [(strip(c), env)]:
        lits(x, e)
    return "wide|%s|%s|%s" % (",".join(sorted(set(str(i) for i in ids if i))), ",".join(str(x) for x in sorted(set(consts), key=lambda x: (str(type(x)), x))), " ".join(sorted(ops)))


def _items_of(fn, by_pat, force=(), wide=False):
    items = []
    for g in inlined_guards(fn, by_pat, force=force):
        if g[0] == "call":
            items.append(("call:%s" % g[1], None))
        else:
            it = guard_item(g[0], g[1], g[2] if len(g) > 2 else ())
            if it:
                items.append((it, wide_item(g[0], g[1], list(g[3]) + list(g[2]))))
    return items if wide else [i for i, w in items]


def inventory(facts):
    fns = functions_by(facts)
    triggers.set_helpers(fns)
    by_pat = {}
    for pat, fn in fns.items():
        by_pat[fn["pat"]] = fn
    inv = {}
    for pat, fn in sorted(fns.items()):
        if fn["name"] not in READER_NAMES or fn["ret"] == "void" or not fn["params"]:
            continue
        allp = " ".join(p["t"] for p in fn["params"])
        kind = "stream" if "basic_istream" in allp else ("bytes" if (fn["params"][0]["t"].startswith(("const void", "void", "const unsigned char"))) else None)
        if kind is None:
            continue
        key = "%s(%s)" % (short(fn["patq"]), kind)
        pairs = sorted(_items_of(fn, by_pat, wide=True), key=lambda x: x[0])
        items = [i for i, w in pairs]
        if items:
            called = set()
            walk(fn["body"], lambda n: called.add(n.get("cname")) if n.get("k") == "Call" and n.get("cname") else None)
            inv[key] = {"items": sorted(items), "pat": fn["pat"], "qname": fn["qname"], "calls": called, "fn": fn, "by_pat": by_pat, "wide": [w for i, w in pairs]}
    return inv


def obligations(facts):
    spj = json.load(open(os.path.join(VERIF, "spec", "validators.json")))
    sp, spw = spj["readers"], spj.get("wide", {})
    cur = inventory(facts)
    out = []
    for key, want in sorted(sp.items()):
        if key not in cur:
            out.append(ob("validators", "validators:" + key, "", "unrecognised", "reader %s (or all of its validations) no longer found" % key, ""))
            continue
        got = list(cur[key]["items"])
        gotw = list(zip(cur[key]["items"], cur[key]["wide"]))
        wantw = spw.get(key) or [None] * len(want)
        # validations moved into a new check_* / validate_* helper of the class: compare with that helper seen through
        new_checks = set(i.split(":", 1)[1] for i in got if i.startswith("call:")) - set(i.split(":", 1)[1] for i in want if i.startswith("call:"))
        if new_checks and any(i not in got for i in want):
            gotw = sorted(_items_of(cur[key]["fn"], cur[key]["by_pat"], force=new_checks, wide=True), key=lambda x: x[0])
            got = [i for i, w in gotw]
        # exact matches are taken first; what is left over on both sides is compared in the wide form
        left = list(got)
        for item in want:
            if item in left:
                left.remove(item)
        leftw = []
        pool = list(gotw)
        for item in left:
            for q in pool:
                if q[0] == item:
                    pool.remove(q)
                    leftw.append(q)
                    break
        for j, item in enumerate(want):
            k = "validators:%s:%s#%d" % (key, item.split("|")[0], j)
            if item in got:
                got.remove(item)
                out.append(ob("validators", k, cur[key]["pat"], "discharged", item, cur[key]["qname"]))
            elif len(wantw) == len(want) and wantw[j] is not None and any(w == wantw[j] for i, w in leftw):
                q = [x for x in leftw if x[1] == wantw[j]][0]
                leftw.remove(q)
                if q[0] in got:
                    got.remove(q[0])
                out.append(ob("validators", k, cur[key]["pat"], "discharged", "%s (now written as %s: same operands, constants and comparison operators, under the same branch conditions - moved between the reader and a helper)" % (item, q[0]), cur[key]["qname"]))
            elif item.startswith("call:") and item.split(":", 1)[1] in cur[key].get("calls", ()):
                out.append(ob("validators", k, cur[key]["pat"], "discharged", "%s is still called (it is now a plain list of guards, which are part of this inventory)" % item, cur[key]["qname"]))
            else:
                what = item.split(":", 1)[1]
                # same comparison shape with renamed operands = refactoring, not a dropped validation
                shape = lambda it: (it.split("|")[0], it.split("|")[2] if it.count("|") >= 2 else "")
                ren = [g for g in got if g.startswith("guard:") and item.startswith("guard:") and shape(g) == shape(item)]
                if ren:
                    got.remove(ren[0])
                    out.append(ob("validators", k, cur[key]["pat"], "unrecognised", "validation `%s` now reads `%s` (operands renamed?): re-review spec/validators.json" % (what, ren[0]), cur[key]["qname"]))
                    continue
                out.append(ob("validators", k, cur[key]["pat"], "violated", "the reader no longer performs the validation `%s`: a corrupted or foreign image field that this check rejected now reaches its uses (shift amounts, sizes, indices, mode switches)" % what, cur[key]["qname"]))
    return out


def checker_inventory(facts):
    """argument / state checkers: functions whose whole body is a list of `if (cond) throw` guards (is_pure_validator), whatever
    they are called and whoever calls them (checkLgK, checkNumStdDev, check_k, check_weight, ...).  key -> sorted guard items
    with the parameters named by position"""
    fns = functions_by(facts)
    triggers.set_helpers(fns)
    by_pat = {f["pat"]: f for f in fns.values()}
    inv = {}
    for pat, fn in sorted(fns.items()):
        if fn.get("body") is None or fn["name"] in READER_NAMES or not fn.get("params"):
            continue
        if not is_pure_validator(fn, by_pat):
            continue
        pairs = sorted(_items_of(fn, by_pat, wide=True), key=lambda x: x[0])
        # a compound condition is listed in its wide form (operators included)
        items = sorted((w.replace("wide|", "guard:wide|", 1) if (i.startswith("guard:complex") and w) else i) for i, w in pairs if not i.startswith("call:"))
        if not items:
            continue
        key = "%s::%s(%d)" % (short(fn.get("rect") or ""), fn["name"], len(fn["params"]))
        if key in inv:
            key = "%s@%s" % (key, str(fn["pat"]).split("/")[0])
        inv[key] = {"items": items, "pat": fn["pat"], "qname": fn["qname"], "file": str(fn["pat"])}
    return inv


def checker_obligations(facts, families=None):
    sp = json.load(open(os.path.join(VERIF, "spec", "checkers.json")))["checkers"]
    cur = checker_inventory(facts)
    out = []
    for key, want in sorted(sp.items()):
        if families is not None and not any(want["file"].startswith(f + "/") for f in families):
            continue
        k0 = "checker:" + key
        if key not in cur:
            # a guarded constructor that now delegates to another constructor of its class: the guards are the target's
            deleg = None
            for f2 in functions_by(facts).values():
                if f2.get("kind") == "ctor" and f2.get("rect") and "%s::%s(%d)" % (short(f2["rect"]), f2["name"], len(f2.get("params") or [])) == key.split("@")[0]:
                    for i2 in f2.get("inits") or []:
                        if i2.get("delegating"):
                            tgt = [g for g in functions_by(facts).values() if g.get("pat") == strip(i2.get("e") or {}).get("cpat")]
                            if tgt:
                                deleg = "%s::%s(%d)" % (short(tgt[0]["rect"]), tgt[0]["name"], len(tgt[0].get("params") or []))
            if deleg is not None and deleg in cur and all(it in cur[deleg]["items"] for it in want["items"]):
                out.append(ob("validators.checker", k0, cur[deleg]["pat"], "discharged", "%s now delegates to %s, which performs the same guards" % (key, deleg), cur[deleg]["qname"]))
                continue
            # a renamed checker: the only pure checker of the same class and arity that the reviewed table does not know
            base = key.split("@")[0]
            cls, ar = base.rsplit("::", 1)[0], base[base.rindex("("):]
            gone_name = base.rsplit("::", 1)[1].split("(")[0]
            still = any(f2.get("rect") and short(f2["rect"]) == cls and f2["name"] == gone_name for f2 in functions_by(facts).values())
            ren = [k2 for k2 in cur if k2 not in sp and k2.split("@")[0].rsplit("::", 1)[0] == cls and k2.split("@")[0].endswith(ar)]
            shape0 = lambda it: (it.split("|")[1] if it.count("|") >= 1 else "")
            ren = [k2 for k2 in ren if sorted(shape0(i) for i in cur[k2]["items"]) == sorted(shape0(i) for i in want["items"])]
            if not still and len(ren) == 1:
                cur[key] = cur[ren[0]]
            else:
                out.append(ob("validators.checker", k0, "", "unrecognised", "checker %s is no longer a plain list of throwing guards (or is gone): re-review spec/checkers.json" % key, ""))
                continue
        got = list(cur[key]["items"])
        for j, item in enumerate(want["items"]):
            k = "%s:%s#%d" % (k0, item.split("|")[0], j)
            if item in got:
                got.remove(item)
                out.append(ob("validators.checker", k, cur[key]["pat"], "discharged", item, cur[key]["qname"]))
                continue
            shape = lambda it: (it.split("|")[1] if it.count("|") >= 1 else "")
            near = [g for g in got if shape(g) == shape(item)]
            if near:
                got.remove(near[0])
                out.append(ob("validators.checker", k, cur[key]["pat"], "violated", "the accepted range of %s changed: guard `%s` now reads `%s` (same operands, another operator / constant): values the callers rely on being accepted are rejected, or values every user of the checked argument assumes impossible get through" % (key, item.split(":", 1)[1], near[0].split(":", 1)[1]), cur[key]["qname"]))
            else:
                out.append(ob("validators.checker", k, cur[key]["pat"], "violated", "%s no longer rejects on `%s`: values every user of the checked argument assumes impossible get through" % (key, item.split(":", 1)[1]), cur[key]["qname"]))
    return out
