"""A3 (inventory form): every reader keeps the validations it performs on the reviewed tree - calls to library functions
that can throw on a bad value (check_*, checkLgK, ...) and inline `if (cond) throw` guards (normalised like the structural
triggers: operator, identifiers, constants).  A validation that disappears from a reader is a violation: a corrupted
preamble byte then reaches a shift amount, an allocation size or an index unchecked."""
import json
import os
from astu import C, ctxt, gt_pair, eq_const, strip, walk, txt, short, functions_by, always_throws, stmts_of
from vlib.core import ob, VERIF
import triggers

READER_NAMES = ("deserialize", "deserialize_items", "deserialize_array", "deserialize_compat", "parse", "wrap", "writable_wrap", "newList", "newSet", "newHll",
                "internal_deserialize_or_wrap", "deserialize_v1", "deserialize_v2", "deserialize_v3", "deserialize_v4")


def throwers(fns):
    """patterns of library functions that contain a throw (directly)"""
    res = set()
    for pat, fn in fns.items():
        hit = [False]
        walk(fn["body"], lambda n: hit.__setitem__(0, True) if n.get("k") == "Throw" else None)
        if hit[0]:
            res.add(pat)
    return res


def inventory(facts):
    fns = functions_by(facts)
    th = throwers(fns)
    inv = {}
    for pat, fn in sorted(fns.items()):
        if fn["name"] not in READER_NAMES or fn["ret"] == "void" or not fn["params"]:
            continue
        allp = " ".join(p["t"] for p in fn["params"])
        kind = "stream" if "basic_istream" in allp else ("bytes" if (fn["params"][0]["t"].startswith(("const void", "void", "const unsigned char"))) else None)
        if kind is None:
            continue
        key = "%s(%s)" % (short(fn["patq"]), kind)
        items = []
        env = triggers.canon_env(fn)

        def v(n):
            if n.get("k") == "Call" and n.get("cpat") in th and (n.get("cname") or "").lower().startswith(("check", "validate")):
                items.append("call:%s" % n["cname"])
            if n.get("k") == "If" and always_throws(n.get("t")) and n.get("e") is None:
                c = strip(n["c"])
                t = txt(c)
                if "good()" in t or "fail()" in t:
                    return
                if c.get("k") == "Bin" and c.get("op") in triggers.FLIP:
                    op, ids, consts, text = triggers.parts(c, env)
                    items.append("guard:%s|%s|%s" % (op, ",".join(ids), ",".join(str(x) for x in consts)))
                else:
                    ids = []
                    walk(c, lambda x: ids.append((env.get(x.get("d")) if x.get("k") == "Ref" else None) or x.get("n") or x.get("f") or x.get("cname")) if x.get("k") in ("Ref", "Member", "Call") else None)
                    items.append("guard:complex|%s" % ",".join(sorted(i for i in ids if i)))
        walk(fn["body"], v)
        if items:
            inv[key] = {"items": sorted(items), "pat": fn["pat"], "qname": fn["qname"]}
    return inv


def obligations(facts):
    sp = json.load(open(os.path.join(VERIF, "spec", "validators.json")))["readers"]
    cur = inventory(facts)
    out = []
    for key, want in sorted(sp.items()):
        if key not in cur:
            out.append(ob("validators", "validators:" + key, "", "unrecognised", "reader %s (or all of its validations) no longer found" % key, ""))
            continue
        got = list(cur[key]["items"])
        for j, item in enumerate(want):
            k = "validators:%s:%s#%d" % (key, item.split("|")[0], j)
            if item in got:
                got.remove(item)
                out.append(ob("validators", k, cur[key]["pat"], "discharged", item, cur[key]["qname"]))
            else:
                what = item.split(":", 1)[1]
                # same comparison shape with renamed operands = refactoring, not a dropped validation
                shape = lambda it: (it.split("|")[0], it.split("|")[2] if it.count("|") >= 2 else "")
                ren = [g for g in got if g.startswith("guard:") and item.startswith("guard:") and shape(g) == shape(item)]
                if ren:
                    got.remove(ren[0])
                    out.append(ob("validators", k, cur[key]["pat"], "unrecognised", "validation `%s` now reads `%s` (operands renamed?): re-review spec/validators.json" % (what, ren[0]), cur[key]["qname"]))
                    continue
                out.append(ob("validators", k, cur[key]["pat"], "violated", "the reader no longer performs the validation `%s`: a corrupted or foreign image field that this check rejected now reaches its uses (shift amounts, sizes, indices, mode switches)" % what, cur[key]["qname"]))
    return out
