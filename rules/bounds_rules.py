"""C06: exhaustive predicates over the bound tables (A7), clamp shapes, monotonicity-in-delta typing of the small-sample
binomial branches, HLL / CPC bound formula shapes."""
import math
from astu import C, ctxt, gt_pair, eq_const, reach, reach_txt, ctext, strip, strip_all, walk, walkp, txt, short, is_this_field, field_name, stmts_of, always_throws, functions_by, local_decls
from vlib.core import ob


def glob(facts, name, drivers=None):
    for g in facts.globals(drivers):
        if g["qname"] == name:
            return g
    return None


def table_rules(facts):
    out = []

    def need(name):
        g = glob(facts, name)
        if g is None or g.get("value") is None:
            out.append(ob("tables", name.replace("datasketches::", "") + ":present", "", "unrecognised", "table %s not found / not evaluated" % name, ""))
            return None
        return g
    # HLL relative error tables: 9 lgK rows x 3 std-devs
    for name, lo, hi in (("HIP_LB", 0.0, None), ("NON_HIP_LB", 0.0, None), ("HIP_UB", -1.0, 0.0), ("NON_HIP_UB", -1.0, 0.0)):
        g = need("datasketches::" + name)
        if not g:
            continue
        v = g["value"]
        for r in range(len(v) // 3):
            row = v[3 * r:3 * r + 3]
            key = "%s:lgK=%d" % (name, r + 4)
            probs = []
            for j, x in enumerate(row):
                if not (x > lo) or (hi is not None and not (x < hi)):
                    probs.append("entry for %d std-dev is %r, outside (%s, %s)" % (j + 1, x, lo, "+inf" if hi is None else hi))
            if not (abs(row[0]) < abs(row[1]) < abs(row[2])):
                probs.append("|entries| %s are not strictly increasing in the number of std-devs (interval would not widen)" % row)
            if name.endswith("LB") is False and any(1.0 + x <= 0 for x in row):
                probs.append("1 + relErr <= 0")
            out.append(ob("tables.hll-relerr", key, g["loc"], "violated" if probs else "discharged", "; ".join(probs) if probs else "sign and widening hold: %s" % row, name))
    # CPC confidence tables: 11 lgK rows x 3 kappa; eps = kappa * x / 10000 / sqrt(k)
    for name in ("ICON_LOW_SIDE_DATA", "ICON_HIGH_SIDE_DATA", "HIP_LOW_SIDE_DATA", "HIP_HIGH_SIDE_DATA"):
        g = need("datasketches::" + name)
        if not g:
            continue
        v = g["value"]
        for r in range(len(v) // 3):
            row = v[3 * r:3 * r + 3]
            lgk = r + 4
            key = "%s:lgK=%d" % (name, lgk)
            probs = []
            if any(x <= 0 for x in row):
                probs.append("non-positive entry in %s" % row)
            eps = [(j + 1) * row[j] / 10000.0 / math.sqrt(1 << lgk) for j in range(3)]
            if not (eps[0] < eps[1] < eps[2]):
                probs.append("kappa * x is not strictly increasing in kappa (%s): the interval would not widen" % eps)
            if "LOW" in name and not all(e < 1 for e in eps):
                probs.append("eps >= 1 would make the upper bound est / (1 - eps) negative or infinite")
            out.append(ob("tables.cpc-confidence", key, g["loc"], "violated" if probs else "discharged", "; ".join(probs) if probs else "positive, widening, eps < 1: %s" % row, name))
    # binomial equivalence tables: 121 rows x 3 columns, increasing across columns; delta decreasing
    for name in ("lb_equiv_table", "ub_equiv_table"):
        g = need("datasketches::" + name)
        if not g:
            continue
        v = g["value"]
        bad = []
        for r in range(len(v) // 3):
            row = v[3 * r:3 * r + 3]
            if not (0 < row[0] < row[1] < row[2]):
                bad.append((r, row))
        key = "%s:columns-increasing" % name
        out.append(ob("tables.binomial", key, g["loc"], "violated" if bad else "discharged", ("rows %s are not strictly increasing in the number of std-devs" % bad[:3]) if bad else "all %d rows positive and strictly increasing across 1,2,3 std-devs" % (len(v) // 3), name))
    g = need("datasketches::delta_of_num_std_devs")
    if g:
        v = g["value"]
        ok = all(0 < v[i + 1] < v[i] < 1 for i in range(len(v) - 1)) and len(v) == 4
        out.append(ob("tables.binomial", "delta_of_num_std_devs:decreasing", g["loc"], "discharged" if ok else "violated", "tail probabilities strictly decreasing in the number of std-devs: %s" % v if ok else "tail probabilities %s are not strictly decreasing in (0,1)" % v, "delta_of_num_std_devs"))
    # HLL composite interpolation x table rows strictly increasing (interpolation precondition)
    g = need("datasketches::xArray")
    if g:
        bad = [i for i, row in enumerate(g["value"]) if not all(row[j] < row[j + 1] for j in range(len(row) - 1))]
        out.append(ob("tables.hll-composite", "xArray:rows-increasing", g["loc"], "violated" if bad else "discharged", ("rows %s are not strictly increasing" % bad[:5]) if bad else "all %d rows strictly increasing (%d points each)" % (len(g["value"]), len(g["value"][0])), "xArray"))
    return out


def returns_of(fn):
    r = []
    walk(fn["body"], lambda n: r.append(n) if n.get("k") == "Return" and n.get("e") is not None else None)
    return r


# ------------------------------------------------------------------------------------------------------
# monotonicity typing: direction of an expression as a function of `delta` (+1 nondecreasing, -1 nonincreasing, 0 constant)
def mono(e, var, inl, neg_consts):
    e = strip_all(e)
    if not isinstance(e, dict):
        return None
    k = e.get("k")
    if k == "Ref":
        if e.get("d") == var:
            return +1
        if e.get("d") in inl:
            return mono(inl[e["d"]], var, inl, neg_consts)
        return 0
    if k in ("Int", "Float") or "v" in e:
        return 0
    if k == "Index" or k == "Member":
        return 0
    if k == "Un" and e.get("op") == "-":
        m = mono(e["e"], var, inl, neg_consts)
        return None if m is None else -m
    if k == "Bin":
        a, b = mono(e["l"], var, inl, neg_consts), mono(e["r"], var, inl, neg_consts)
        if a is None or b is None:
            return None
        if e["op"] == "+":
            return a if b == 0 else (b if a == 0 else (a if a == b else None))
        if e["op"] == "-":
            b = -b
            return a if b == 0 else (b if a == 0 else (a if a == b else None))
        if e["op"] == "/" and b == 0:
            s = sign_of(e["r"], neg_consts)
            if s is None:
                return None
            return a * s
        if e["op"] == "*" and (a == 0 or b == 0):
            other, m = (e["l"], b) if a == 0 else (e["r"], a)
            s = sign_of(other, neg_consts)
            return None if s is None else m * s
        return None
    if k == "Call":
        name = e.get("cname")
        if name in ("log", "sqrt", "floor", "ceil", "exp") and len(e.get("args", [])) == 1:
            return mono(e["args"][0], var, inl, neg_consts)
        if not any(mentions(a, var, inl) for a in e.get("args", [])):
            return 0
        return None
    return None


def mentions(e, var, inl, depth=0):
    hit = [False]

    def v(n):
        if n.get("k") == "Ref":
            if n.get("d") == var:
                hit[0] = True
            elif n.get("d") in inl and depth < 4 and mentions(inl[n["d"]], var, inl, depth + 1):
                hit[0] = True
    walk(e, v)
    return hit[0]


def sign_of(e, neg_consts):
    """+1 / -1 if the sign of the (delta-free) expression is known: log(1 - theta) < 0 for theta in (0,1)"""
    t = txt(e).replace(" ", "")
    if t in neg_consts:
        return -1
    e0 = strip_all(e)
    if "v" in e0:
        return 1 if e0["v"] > 0 else (-1 if e0["v"] < 0 else None)
    if e0.get("k") == "Float":
        return 1 if e0.get("f", 0) > 0 else -1
    return None


def binomial_rules(facts):
    fns = functions_by(facts, ["theta", "tuple"])
    out = []
    for pat, fn in sorted(fns.items()):
        if (fn.get("rect") or "") != "datasketches::binomial_bounds":
            continue
        if fn["name"] in ("get_lower_bound", "get_upper_bound"):
            inl = {d: v["init"] for d, v in local_decls(fn).items() if v.get("init") is not None}
            r = returns_of(fn)
            t = txt(r[0]["e"], None).replace(" ", "") if r else "?"
            key = "binomial_bounds::%s:clamp" % fn["name"]
            if fn["name"] == "get_lower_bound":
                ok = t in (C("min(estimate,max(num_samples,lb))"),)
                msg = "returns min(estimate, max(num_samples, lb)): never above the estimate, never below the retained count"
            else:
                ok = t == C("max(estimate,ub)")
                msg = "returns max(estimate, ub): never below the estimate"
            # the clamp arguments must be the computed estimate / bound
            st = [txt(s.get("e")) for s in stmts_of(fn["body"]) if s.get("k") == "Expr"]
            guards = sum(1 for x in st if x.startswith("check_theta(") or x.startswith("check_num_std_devs("))
            if ok and guards == 2:
                out.append(ob("bounds.clamp", key, fn["pat"], "discharged", msg + "; theta and num_std_devs validated first", fn["qname"]))
            else:
                out.append(ob("bounds.clamp", key, fn["pat"], "violated", "returns `%s` with %d argument checks: the clamp that keeps lower <= estimate <= upper (or the validation of theta / num_std_devs that guards the table index) is missing" % (t, guards), fn["qname"]))
        if fn["name"] in ("compute_approx_binomial_lower_bound", "compute_approx_binomial_upper_bound"):
            lower = "lower" in fn["name"]
            # small-sample branch: a local `delta = delta_of_num_std_devs[..]` and `raw = f(delta)`: direction in delta
            idx = [0]

            def v(n):
                if n.get("k") != "If":
                    return
                body = stmts_of(n.get("t"))
                decl = {}
                for s in body:
                    if s.get("k") == "Decl":
                        for vv in s["vars"]:
                            decl[vv["n"]] = vv
                if "delta" not in decl:
                    return
                raws = [vv for nme, vv in decl.items() if nme.startswith("raw_")]
                if not raws:
                    return
                key = "binomial_bounds::%s:monotone-in-delta#%d" % (fn["name"], idx[0])
                idx[0] += 1
                inl = {vv["d"]: vv["init"] for vv in decl.values() if vv.get("init") is not None and vv["n"] != "delta"}
                m = mono(raws[0]["init"], decl["delta"]["d"], inl, {"log((1-theta))", "std::log((1-theta))"})
                want = +1 if lower else -1
                expr = txt(raws[0]["init"])
                if m is None:
                    out.append(ob("bounds.monotone", key, raws[0]["loc"], "unrecognised", "direction of `%s` in delta could not be typed" % expr, fn["qname"]))
                elif m == want:
                    out.append(ob("bounds.monotone", key, raws[0]["loc"], "discharged", "`%s` is %s in the tail probability delta, so the %s bound moves %s as the number of std-devs grows" % (expr, "nondecreasing" if m > 0 else "nonincreasing", "lower" if lower else "upper", "down" if lower else "up"), fn["qname"]))
                else:
                    out.append(ob("bounds.monotone", key, raws[0]["loc"], "violated", "`%s` is %s in the tail probability delta: as the number of std-devs grows (delta shrinks) the %s bound moves %s - the interval narrows instead of widening" % (expr, "nondecreasing" if m > 0 else ("constant" if m == 0 else "nonincreasing"), "lower" if lower else "upper", "up" if lower else "down"), fn["qname"]))
            walk(fn["body"], v)
    return out


def hll_cpc_bound_shapes(facts):
    out = []
    hf = functions_by(facts, ["hll"])
    for pat, fn in sorted(hf.items()):
        rect = fn.get("rect") or ""
        if rect == "datasketches::HllArray" and fn["name"] in ("getLowerBound", "getUpperBound"):
            from astu import single_assignment_locals
            inl = single_assignment_locals(fn)   # independent of which sub-expressions are hoisted into named locals
            r = returns_of(fn)
            t = txt(r[0]["e"], inl).replace(" ", "") if r else "?"
            upper = fn["name"] == "getUpperBound"
            relt = "see bound"
            key = "HllArray::%s:formula" % fn["name"]
            import semantics
            t = semantics.symbolic_return(fn, params=True) or "?"     # locals substituted in program order, parameters by position
            ok = C("(getEstimate()/(1+getRelErr(%s,oooFlag_,lgConfigK_,p0)))" % ("true" if upper else "false")) in t and any(txt(s.get("e")).startswith("checkNumStdDev(") for s in stmts_of(fn["body"]) if s.get("k") == "Expr")
            if ok:
                out.append(ob("bounds.shape", key, fn["pat"], "discharged", "estimate / (1 + relErr) with relErr from the %s table (negative for upper, positive for lower), numStdDev validated" % ("upper" if upper else "lower"), fn["qname"]))
            else:
                out.append(ob("bounds.shape", key, fn["pat"], "violated", "bound is `%s` with relErr = `%s`: expected estimate / (1 + getRelErr(%s, ...)) after checkNumStdDev" % (t, relt, "true" if upper else "false"), fn["qname"]))
        if rect == "datasketches::CouponList" and fn["name"] in ("getLowerBound", "getUpperBound"):
            import semantics
            t = (semantics.symbolic_return(fn, params=True) or "?").replace("hll_constants::", "")
            upper = fn["name"] == "getUpperBound"
            # COUPON_RSE = 0.409 / 2^13 (named constants read as their values)
            want = C("(usingXAndYTables(couponCount_)/(1%s(p0*%s)))" % ("-" if upper else "+", repr(0.409 / (1 << 13))))
            key = "CouponList::%s:formula" % fn["name"]
            if want in t and t.startswith("fmax("):
                out.append(ob("bounds.shape", key, fn["pat"], "discharged", "fmax(est / (1 %s n * RSE), couponCount)" % ("-" if upper else "+"), fn["qname"]))
            else:
                out.append(ob("bounds.shape", key, fn["pat"], "violated", "bound is `%s`, expected fmax(%s, couponCount_)" % (t, want), fn["qname"]))
        if rect == "datasketches::RelativeErrorTables" and fn["name"] == "getRelErr":
            # (upperBound, oooFlag) select one of the four tables: decided as a truth table over the two boolean parameters -
            # for each of the four assignments exactly one table read is reachable (switch on a packed code, if-chain or nested
            # ifs alike), it is the right table, and its index is (lgK - 4) * 3 + (stdDev - 1); names of locals / parameters
            # do not matter
            from astu import single_assignment_locals
            sa = single_assignment_locals(fn)
            ps = fn.get("params") or []
            key = "RelativeErrorTables::getRelErr:routing"
            if len(ps) != 4:
                out.append(ob("bounds.shape", key, fn["pat"], "unrecognised", "getRelErr no longer takes (upperBound, oooFlag, lgK, stdDev)", fn["qname"]))
                continue
            pd = [p.get("d") for p in ps]
            penv = {ps[i]["d"]: {"k": "Ref", "n": "p%d" % i, "d": None, "dk": "synthetic"} for i in range(4)}
            inl = dict(sa)
            inl.update(penv)

            def ieval(e, asg, depth=0):
                e = strip_all(e)
                if not isinstance(e, dict) or depth > 12:
                    return None
                k = e.get("k")
                if k == "Paren":
                    return ieval(e.get("e"), asg, depth + 1)
                if k == "Bool":
                    return bool(e.get("b"))
                if k == "Int":
                    return e.get("v")
                if k == "Ref":
                    if e.get("d") in asg:
                        return asg[e["d"]]
                    if e.get("d") in sa:
                        return ieval(sa[e["d"]], asg, depth + 1)
                    return e.get("v") if isinstance(e.get("v"), int) else None
                if k == "Cond":
                    c = ieval(e["c"], asg, depth + 1)
                    if c is None:
                        return None
                    return ieval(e["a"] if c else e["e"], asg, depth + 1)
                if k == "Un" and e.get("op") == "!":
                    x = ieval(e["e"], asg, depth + 1)
                    return None if x is None else (not x)
                if k == "Bin":
                    op = e.get("op")
                    l, r = ieval(e["l"], asg, depth + 1), ieval(e["r"], asg, depth + 1)
                    if op == "&&":
                        return False if (l is False or r is False) else (None if (l is None or r is None) else bool(l and r))
                    if op == "||":
                        return True if (l is True or r is True) else (None if (l is None or r is None) else bool(l or r))
                    if l is None or r is None:
                        return None
                    l, r = int(l), int(r)
                    try:
                        return {"|": l | r, "&": l & r, "+": l + r, "-": l - r, "*": l * r, "<<": l << r if 0 <= r < 64 else None, "^": l ^ r,
                                "==": l == r, "!=": l != r, "<": l < r, "<=": l <= r, ">": l > r, ">=": l >= r}.get(op)
                    except Exception:
                        return None
                return None
            TABLES = ("HIP_LB", "HIP_UB", "NON_HIP_LB", "NON_HIP_UB")
            uses = []
            walk(fn["body"], lambda n: uses.append(n) if n.get("k") in ("Index", "OpCall") and txt(n).split("[")[0].split("::")[-1] in TABLES and "[" in txt(n) else None)
            probs = []
            if len(uses) < 4:
                probs.append("only %d reads of the four tables found" % len(uses))
            for u in uses:
                it = txt(u, inl).replace(" ", "")
                ix = it[it.index("[") + 1:-1]
                if C(ix) != C("(((p2-4)*3)+(p3-1))"):
                    probs.append("%s is indexed with `%s`, expected (lgK - 4) * 3 + (stdDev - 1)" % (txt(u).split("[")[0], ix))
            for upper_v in (False, True):
                for ooo_v in (False, True):
                    asg = {pd[0]: upper_v, pd[1]: ooo_v}
                    live = []
                    for u in uses:
                        vals = [ieval(l, asg) for l in reach(fn["body"], u)]
                        if any(v is None for v in vals):
                            probs.append("a condition above `%s` cannot be evaluated from (upperBound, oooFlag)" % txt(u))
                            live = None
                            break
                        if all(vals):
                            live.append(txt(u).split("[")[0].split("::")[-1])
                    if live is None:
                        continue
                    want_t = ("NON_HIP_" if ooo_v else "HIP_") + ("UB" if upper_v else "LB")
                    if sorted(set(live)) != [want_t]:
                        probs.append("for upperBound=%s, oooFlag=%s the table read is %s, expected %s" % (upper_v, ooo_v, sorted(set(live)) or "none", want_t))
            if not probs:
                out.append(ob("bounds.shape", key, fn["pat"], "discharged", "index (lgK-4)*3 + (stdDev-1); (ooo, upper) routed to HIP/NON_HIP x LB/UB for all four assignments", fn["qname"]))
            else:
                out.append(ob("bounds.shape", key, fn["pat"], "violated", "; ".join(sorted(set(probs))[:4]) + ": the bound is computed from the wrong relative-error table / row", fn["qname"]))
    cf = functions_by(facts, ["cpc"])
    for pat, fn in sorted(cf.items()):
        if fn["name"] in ("get_icon_confidence_lb", "get_icon_confidence_ub", "get_hip_confidence_lb", "get_hip_confidence_ub") and fn.get("rect") is None:
            upper = fn["name"].endswith("_ub")
            key = "%s:formula" % fn["name"]
            probs = []
            # the returned value with every intermediate local substituted in program order: names, hoisting and the spelling of
            # the clamp do not matter, the formula does
            import semantics
            est = "sketch.get_icon_estimate()" if "icon" in fn["name"] else "sketch.get_hip_estimate()"
            T = ("ICON" if "icon" in fn["name"] else "HIP")
            import math
            # named constants read as their values: ICON error constant ln 2, HIP error constant sqrt(ln 2 / 2), tables scaled by 10^4
            errc = repr(math.log(2.0)) if T == "ICON" else repr(math.sqrt(math.log(2.0) / 2.0))
            x = "((14<sketch.get_lg_k())?%s:(%s_%s_SIDE_DATA[(((sketch.get_lg_k()-4)*3)+(kappa-1))]/10000))" % (errc, T, "LOW" if upper else "HIGH")
            core = "(%s/(1%s(kappa*(%s/sqrt((1<<sketch.get_lg_k()))))))" % (est, "-" if upper else "+", x)
            want = C("ceil(%s)" % core) if upper else C("max(%s,sketch.get_num_coupons())" % core)
            got = semantics.symbolic_return(fn, values=True)
            if got != want:
                probs.append("the bound returned is `%s`, expected `%s`" % (got, want))
            guards = [txt(s["c"]).replace(" ", "") for s in stmts_of(fn["body"]) if s.get("k") == "If" and always_throws(s.get("t"))]
            if not any(g == C("((kappa<1)||(kappa>3))") for g in guards):
                probs.append("kappa is not validated to 1..3 before indexing")
            if probs:
                out.append(ob("bounds.shape", key, fn["pat"], "violated", "; ".join(probs), fn["qname"]))
            else:
                out.append(ob("bounds.shape", key, fn["pat"], "discharged", "est / (1 %s kappa * x / sqrt(k)), x from the %s-side table, kappa validated" % ("-" if upper else "+", "LOW" if upper else "HIGH"), fn["qname"]))
    return out
