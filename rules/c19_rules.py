"""C19 lifecycle rules (DESIGN.md section 4 A5): special-member completeness and peers, allocate/deallocate
size agreement, deleter counts, local allocation pairing, foreign new/delete, dangling reference returns."""
import re
from vlib.core import ob


def strip(e):
    while isinstance(e, dict) and e.get("k") == "Cast":
        e = e["e"]
    return e


def strip_all(e):
    """strip casts, single-argument copy/move constructions and std::move/forward"""
    while isinstance(e, dict):
        if e.get("k") == "Cast":
            e = e["e"]
        elif e.get("k") == "Construct" and len(e.get("args", [])) == 1 and e.get("ckind") in ("copy", "move"):
            e = e["args"][0]
        elif e.get("k") == "Call" and e.get("cname") in ("move", "forward") and len(e.get("args", [])) == 1:
            e = e["args"][0]
        else:
            break
    return e


def walk(n, f):
    if isinstance(n, dict):
        f(n)
        for v in n.values():
            walk(v, f)
    elif isinstance(n, list):
        for v in n:
            walk(v, f)


def key(e, inl=None, depth=0):
    e = strip(e)
    if e is None:
        return "?"
    k = e.get("k")
    if "v" in e and k not in ("Call", "Assign"):
        return str(e["v"])
    if k == "Int":
        return e["lit"]
    if k == "Ref":
        if inl and e["d"] in inl and depth < 5:
            r = inl[e["d"]]
            return r if isinstance(r, str) else key(r, inl, depth + 1)
        return e["n"]
    if k == "This":
        return "this"
    if k == "Member":
        b = key(e["b"], inl, depth)
        return e["f"] if b == "this" else b + "." + e["f"]
    if k == "Bin":
        l, r = key(e["l"], inl, depth), key(e["r"], inl, depth)
        if e["op"] in ("+", "*"):
            l, r = sorted([l, r])
        if e["op"] == "<<" and l == "1":
            return "pow2(%s)" % r
        return "(%s%s%s)" % (l, e["op"], r)
    if k == "Call":
        o = key(e["obj"], inl, depth) + "." if e.get("obj") else ""
        if o == "this.":
            o = ""
        return o + e.get("cname", "?") + "(" + ",".join(key(a, inl, depth) for a in e.get("args", [])) + ")"
    if k == "Construct" and len(e.get("args", [])) == 1:
        return key(e["args"][0], inl, depth)
    if k == "Cond":
        return "(%s?%s:%s)" % (key(e["c"], inl, depth), key(e["a"], inl, depth), key(e["e"], inl, depth))
    if k == "Sizeof":
        return str(e.get("v"))
    return k or "?"


def short(q):
    return (q or "").replace("datasketches::", "")


def is_this_member(e):
    e = strip(e)
    return isinstance(e, dict) and e.get("k") == "Member" and e.get("isfield") and strip(e["b"]).get("k") == "This"


def member_of(e, did):
    """field name if e is <decl did>.field"""
    e = strip_all(e)
    if isinstance(e, dict) and e.get("k") == "Member" and e.get("isfield"):
        b = strip_all(e["b"])
        if b.get("k") == "Ref" and b.get("d") == did:
            return e["f"]
    return None


def mentions_decl(e, did):
    found = [False]

    def v(n):
        if n.get("k") == "Ref" and n.get("d") == did:
            found[0] = True
    walk(e, v)
    return found[0]


# ----------------------------------------------------------------------------------------------
def special_members(facts):
    """R1/R2: every own field of a record with a user-written special member is handled by it, with the right peer."""
    recs = {}
    for r in facts.records():
        recs.setdefault(r["tmpl"], r)
    fns = facts.functions()
    by_rec = {}
    seen = set()
    for fn in fns:
        if fn.get("special") and fn["pat"] not in seen and fn.get("body") is not None and not fn.get("defaulted") and not fn.get("implicit"):
            seen.add(fn["pat"])
            by_rec.setdefault(fn["rect"], {})[fn["special"]] = fn
    out = []
    for rect, sp in sorted(by_rec.items()):
        r = recs.get(rect)
        if not r:
            continue
        fields = [f for f in r["fields"] if f["n"]]
        fnames = [f["n"] for f in fields]
        for kind, fn in sorted(sp.items()):
            if not fn["params"]:
                continue
            other = fn["params"][0]["d"]
            base = "%s::%s" % (short(rect), kind)
            if kind in ("copy-ctor", "move-ctor"):
                inits = fn.get("inits", [])
                extra_bodies = []
                if any(i.get("delegating") for i in inits):
                    # a constructor that delegates: the fields are initialised by the target constructor with this one's
                    # arguments (defaulted parameters appear as their default values) - judged field by field like a written list
                    d0 = [i for i in inits if i.get("delegating")][0]
                    ce = strip_all(d0.get("e") or {})
                    tgt = [f2 for f2 in fns if f2.get("pat") == ce.get("cpat") and f2.get("kind") == "ctor" and f2.get("body") is not None]
                    if not tgt or len(tgt[0].get("params", [])) != len(ce.get("args", [])) or any(i.get("delegating") for i in tgt[0].get("inits", [])):
                        out.append(ob("special.complete", base + ":delegating", fn["pat"], "unrecognised", "delegating constructor whose target cannot be resolved", fn["qname"]))
                        continue
                    import copy as _copy
                    pm = {p["d"]: a for p, a in zip(tgt[0]["params"], ce["args"])}

                    def sub(n):
                        if isinstance(n, list):
                            return [sub(x) for x in n]
                        if not isinstance(n, dict):
                            return n
                        if n.get("k") == "Ref" and n.get("d") in pm:
                            return _copy.deepcopy(pm[n["d"]])
                        return {k2: sub(v2) for k2, v2 in n.items()}
                    inits = [dict(i, e=sub(i["e"])) for i in tgt[0].get("inits", []) if "field" in i]
                    extra_bodies.append(tgt[0]["body"])
                inited = {i["field"]: i["e"] for i in inits if "field" in i and i.get("written")}
                body_handled = set()
                nulled_in_other = set()
                swapped_with_other = set()

                def visit(n):
                    if n.get("k") == "Assign" and n.get("op") == "=":
                        if is_this_member(n["l"]):
                            body_handled.add(strip(n["l"])["f"])
                        m = member_of(n["l"], other)
                        if m:
                            nulled_in_other.add(m)
                    if n.get("k") == "OpCall" and n.get("op") == "=" and n.get("args") and is_this_member(n["args"][0]):
                        body_handled.add(strip(n["args"][0])["f"])
                    if n.get("k") == "Call" and n.get("cname") == "swap" and len(n.get("args", [])) == 2:
                        a, b = n["args"]
                        for x, y in ((a, b), (b, a)):
                            if is_this_member(x):
                                body_handled.add(strip(x)["f"])
                                m = member_of(y, other)
                                if m:
                                    swapped_with_other.add((strip(x)["f"], m))
                walk(fn["body"], visit)
                for b2 in extra_bodies:
                    walk(b2, visit)
                # counters stepped while the body copies element by element are rebuilt from the source too
                walk(fn["body"], lambda n: body_handled.add(strip(n["e"])["f"]) if n.get("k") == "Un" and n.get("op") in ("++", "--") and is_this_member(n.get("e") or {}) else None)
                for f in fields:
                    n = f["n"]
                    k = base + ":" + n
                    if n not in inited and n not in body_handled:
                        out.append(ob("special.complete", k, fn["pat"], "violated", "%s does not initialise field `%s` (neither in the initialiser list nor in the body)" % (kind, n), fn["qname"]))
                        continue
                    if n in inited:
                        e = inited[n]
                        from_other = mentions_decl(e, other)
                        peer_fields = []
                        walk(e, lambda x: peer_fields.append(x.get("f")) if x.get("k") == "Member" and x.get("isfield") and strip_all(x["b"]).get("k") == "Ref" and strip_all(x["b"]).get("d") == other else None)
                        lit = strip(e)
                        is_lit = lit.get("k") in ("Null", "Bool", "Int", "ZeroInit") or "v" in lit
                        is_alloc = lit.get("k") == "Call" and lit.get("cname") == "allocate"
                        if from_other:
                            # the peer must be the same field (or an accessor), not a different field of other
                            if peer_fields and n not in peer_fields and not is_alloc:
                                out.append(ob("special.peer", k, fn["pat"], "violated", "%s initialises `%s` from other.%s" % (kind, n, "/".join(sorted(set(peer_fields)))), fn["qname"]))
                                continue
                            # move ctor + raw owning pointer: the source must be nulled or swapped
                            if kind == "move-ctor" and f["t"].endswith("*") and not f.get("mutable") and strip_all(e).get("k") == "Member":
                                if n not in nulled_in_other and not any(a == n for a, b in swapped_with_other):
                                    out.append(ob("special.moved-from", k, fn["pat"], "violated", "move constructor copies raw pointer `%s` but does not null it in the source: double free on destruction of the moved-from object" % n, fn["qname"]))
                                    continue
                                out.append(ob("special.moved-from", k, fn["pat"], "discharged", "raw pointer `%s` taken and nulled in the source" % n, fn["qname"]))
                            out.append(ob("special.complete", k, fn["pat"], "discharged", "initialised from other", fn["qname"]))
                        elif is_alloc or (n in body_handled):
                            out.append(ob("special.complete", k, fn["pat"], "discharged", "allocated/reset in the initialiser list and rebuilt in the body", fn["qname"]))
                        elif is_lit and (f.get("mutable") or f["t"].endswith("*") and "sorted_view" in n):
                            out.append(ob("special.complete", k, fn["pat"], "discharged", "cache field reset", fn["qname"]))
                        elif is_lit:
                            out.append(ob("special.complete", k, fn["pat"], "violated", "%s resets `%s` to a literal and never rebuilds it from the source" % (kind, n), fn["qname"]))
                        else:
                            out.append(ob("special.complete", k, fn["pat"], "violated", "%s initialises `%s` from `%s`, which does not involve the source object" % (kind, n, key(e)), fn["qname"]))
                    else:
                        out.append(ob("special.complete", k, fn["pat"], "discharged", "assigned in the body", fn["qname"]))
            else:
                handled = {}
                locals_ = {}
                # statements moved into a private helper of the class (`swap_state(copy)`) are read in place
                try:
                    from astu import inlined_body
                    fn = dict(fn, body=inlined_body(fn, {f2["pat"]: f2 for f2 in fns if f2.get("pat")}, depth=2))
                except Exception:
                    pass
                walk(fn["body"], lambda n: [locals_.__setitem__(v["d"], v) for v in n.get("vars", []) if "d" in v] if n.get("k") == "Decl" else None)
                copies = {d for d, v in locals_.items() if v.get("init") is not None and mentions_decl(v["init"], other)}

                def visit(n):
                    if n.get("k") == "Call" and n.get("cname") == "swap" and len(n.get("args", [])) == 2:
                        a, b = n["args"]
                        for x, y in ((a, b), (b, a)):
                            if is_this_member(x):
                                py = strip_all(y)
                                pb = strip_all(py.get("b", {})) if py.get("k") == "Member" else {}
                                handled[strip(x)["f"]] = ("swap", py.get("f"), pb.get("d"))
                    if n.get("k") == "Assign" and n.get("op") == "=" and is_this_member(n["l"]):
                        src = strip_all(n["r"])
                        pf, pd = None, None
                        if src.get("k") == "Member":
                            pf = src.get("f")
                            pd = strip_all(src["b"]).get("d")
                        handled.setdefault(strip(n["l"])["f"], ("assign", pf, pd))
                    if n.get("k") == "OpCall" and n.get("op") == "=" and len(n.get("args", [])) == 2 and is_this_member(n["args"][0]):
                        src = strip_all(n["args"][1])
                        pf, pd = None, None
                        if src.get("k") == "Member":
                            pf = src.get("f")
                            pd = strip_all(src["b"]).get("d")
                        handled.setdefault(strip(n["args"][0])["f"], ("assign", pf, pd))
                walk(fn["body"], visit)
                # copy assignment written as `*this = std::move(copy)` (copy a local copy of the source): every field is handled the
                # way the move assignment handles it
                if kind == "copy-assign" and "move-assign" in sp and not handled:
                    deleg = []

                    def dv(n):
                        if n.get("k") == "OpCall" and n.get("op") == "=" and len(n.get("args", [])) == 2:
                            a0, a1 = strip_all(n["args"][0]), strip_all(n["args"][1])
                            if a0.get("k") == "Un" and a0.get("op") == "*" and strip_all(a0.get("e") or {}).get("k") == "This" and a1.get("k") == "Ref" and a1.get("d") in copies:
                                deleg.append(a1["d"])
                        # spelled as a call: operator=(std::move(copy)) / this->operator=(std::move(copy))
                        if n.get("k") == "Call" and n.get("cname") == "operator=" and len(n.get("args", [])) == 1 and (n.get("obj") is None or strip_all(n.get("obj") or {}).get("k") == "This"):
                            a1 = strip_all(n["args"][0])
                            if a1.get("k") == "Ref" and a1.get("d") in copies:
                                deleg.append(a1["d"])
                    walk(fn["body"], dv)
                    if deleg:
                        mfn = sp["move-assign"]
                        mother = mfn["params"][0]["d"] if mfn.get("params") else None
                        saved = (fn, other)
                        other_m = mother

                        def visit_m(n):
                            if n.get("k") == "Call" and n.get("cname") == "swap" and len(n.get("args", [])) == 2:
                                a, b = n["args"]
                                for x, y in ((a, b), (b, a)):
                                    if is_this_member(x):
                                        py = strip_all(y)
                                        pb = strip_all(py.get("b", {})) if py.get("k") == "Member" else {}
                                        handled[strip(x)["f"]] = ("swap", py.get("f"), deleg[0] if pb.get("d") == other_m else pb.get("d"))
                            if n.get("k") == "Assign" and n.get("op") == "=" and is_this_member(n["l"]):
                                src = strip_all(n["r"])
                                pf, pd = (src.get("f"), strip_all(src["b"]).get("d")) if src.get("k") == "Member" else (None, None)
                                handled.setdefault(strip(n["l"])["f"], ("assign", pf, deleg[0] if pd == other_m else pd))
                            if n.get("k") == "OpCall" and n.get("op") == "=" and len(n.get("args", [])) == 2 and is_this_member(n["args"][0]):
                                src = strip_all(n["args"][1])
                                pf, pd = (src.get("f"), strip_all(src["b"]).get("d")) if src.get("k") == "Member" else (None, None)
                                handled.setdefault(strip(n["args"][0])["f"], ("assign", pf, deleg[0] if pd == other_m else pd))
                        walk(mfn["body"], visit_m)
                for f in fields:
                    n = f["n"]
                    k = base + ":" + n
                    if n not in handled:
                        if f.get("mutable"):
                            continue
                        out.append(ob("special.complete", k, fn["pat"], "violated", "%s neither swaps nor assigns field `%s`: the target keeps its old value" % (kind, n), fn["qname"]))
                        continue
                    how, pf, pd = handled[n]
                    if pf is not None and pf != n:
                        out.append(ob("special.peer", k, fn["pat"], "violated", "%s pairs field `%s` with peer field `%s`" % (kind, n, pf), fn["qname"]))
                    elif how == "swap" and kind == "copy-assign" and pd == other:
                        out.append(ob("special.peer", k, fn["pat"], "violated", "copy assignment swaps `%s` with the const source instead of the local copy" % n, fn["qname"]))
                    elif how == "swap" and kind == "copy-assign" and pd not in copies:
                        out.append(ob("special.peer", k, fn["pat"], "violated", "copy assignment swaps `%s` with an object that is not a copy of the source" % n, fn["qname"]))
                    elif kind == "move-assign" and pd is not None and pd != other:
                        out.append(ob("special.peer", k, fn["pat"], "violated", "move assignment takes `%s` from something that is not the source" % n, fn["qname"]))
                    else:
                        out.append(ob("special.complete", k, fn["pat"], "discharged", "%s with the right peer" % how, fn["qname"]))
    return out


# ----------------------------------------------------------------------------------------------
def alloc_pairing(facts):
    """R3: every deallocate(field, n) uses a size expression equal (after mapping locals/params to the fields they
    are stored in) to the size of some allocate(n) stored in that field.  R4: deleter classes deallocate with a
    count they were constructed with.  R5: a pointer allocated into a local is deallocated with the same size."""
    fns = facts.functions()
    recs = {}
    for r in facts.records():
        recs.setdefault(r["tmpl"], r)
    alloc_sites, dealloc_sites = {}, {}
    out = []
    seen = set()
    for fn in fns:
        if fn["pat"] in seen or not fn.get("rect") or fn.get("body") is None:
            continue
        seen.add(fn["pat"])
        rect = fn["rect"]
        # map local/param decl -> field name it is stored into in this function (ctor init `f(p)` or `this->f = p`)
        stored = {}
        for i in fn.get("inits", []):
            if "field" in i:
                x = strip_all(i["e"])
                if isinstance(x, dict) and x.get("k") == "Ref" and x.get("dk") in ("param", "local"):
                    stored[x["d"]] = i["field"]
        consts = {}

        def v0(n):
            if n.get("k") == "Assign" and n.get("op") == "=" and is_this_member(n["l"]):
                x = strip_all(n["r"])
                if isinstance(x, dict) and x.get("k") == "Ref" and x.get("dk") in ("param", "local"):
                    stored[x["d"]] = strip(n["l"])["f"]
            if n.get("k") == "Decl":
                for v in n.get("vars", []):
                    if v.get("init") is not None and v.get("const"):
                        consts[v["d"]] = v["init"]
        walk(fn["body"], v0)
        inl = dict(consts)
        inl.update(stored)   # stored wins: the local is identified with the field it ends up in
        local_alloc, local_dealloc = {}, {}

        def visit(n):
            if n.get("k") == "Assign" and n["op"] == "=":
                l, r = strip(n["l"]), strip(n["r"])
                if r.get("k") == "Call" and r.get("cname") == "allocate" and r.get("args"):
                    if is_this_member(l):
                        alloc_sites.setdefault((rect, l["f"]), []).append((fn, n["loc"], key(r["args"][0], inl)))
                    elif l.get("k") == "Ref":
                        local_alloc.setdefault(l["d"], []).append((n["loc"], key(r["args"][0], consts), l["n"]))
            if n.get("k") == "Decl":
                for v in n.get("vars", []):
                    r = strip(v.get("init")) if v.get("init") is not None else None
                    if isinstance(r, dict) and r.get("k") == "Call" and r.get("cname") == "allocate" and r.get("args"):
                        local_alloc.setdefault(v["d"], []).append((v["loc"], key(r["args"][0], consts), v["n"]))
            if n.get("k") == "Call" and n.get("cname") == "deallocate" and len(n.get("args", [])) == 2:
                p = strip(n["args"][0])
                if is_this_member(p):
                    dealloc_sites.setdefault((rect, p["f"]), []).append((fn, n["loc"], key(n["args"][1], consts)))
                elif p.get("k") == "Ref":
                    local_dealloc.setdefault(p["d"], []).append((n["loc"], key(n["args"][1], consts), p["n"]))
        walk(fn["body"], visit)
        # a local that is swapped with something changes identity: R5 does not apply to it
        swapped_locals = set()

        def vs(n):
            if n.get("k") == "Call" and n.get("cname") == "swap":
                for a in n.get("args", []):
                    x = strip_all(a)
                    if x.get("k") == "Ref":
                        swapped_locals.add(x["d"])
        walk(fn["body"], vs)
        for d in swapped_locals:
            local_alloc.pop(d, None)
        for i in fn.get("inits", []):
            if "field" in i:
                r = strip(i["e"])
                if r and r.get("k") == "Call" and r.get("cname") == "allocate" and r.get("args"):
                    alloc_sites.setdefault((rect, i["field"]), []).append((fn, r["loc"], key(r["args"][0], inl)))
        # R5 locals
        for d, das in local_dealloc.items():
            if d in local_alloc:
                asz = {a[1] for a in local_alloc[d]}
                for j, (loc, sz, name) in enumerate(das):
                    k = "%s::%s:local:%s#%d" % (short(rect), fn["name"], name, j)
                    if sz in asz:
                        out.append(ob("alloc.local", k, loc, "discharged", "deallocate(%s, %s) matches allocate(%s)" % (name, sz, sz), fn["qname"]))
                    else:
                        out.append(ob("alloc.local", k, loc, "violated", "local `%s` allocated with size %s but deallocated with size %s" % (name, "/".join(sorted(asz)), sz), fn["qname"]))
        # R4 deleters
        if fn["name"] == "operator()" and (fn["params"] and fn["params"][0]["t"].endswith("*")):
            r = recs.get(rect)
            flds = [f["n"] for f in r["fields"]] if r else []
            pdecl = fn["params"][0]["d"]
            for j, (loc, sz, name) in enumerate(local_dealloc.get(pdecl, [])):
                k = "%s::operator():count#%d" % (short(rect), j)
                if sz in flds:
                    out.append(ob("alloc.deleter", k, loc, "discharged", "deleter deallocates with its stored count `%s`" % sz, fn["qname"]))
                else:
                    out.append(ob("alloc.deleter", k, loc, "violated", "deleter deallocates with `%s`, which is not a count stored at construction (fields: %s)" % (sz, ", ".join(flds)), fn["qname"]))
    # R3 fields
    for (rect, f) in sorted(dealloc_sites):
        asz = {a[2] for a in alloc_sites.get((rect, f), [])}
        if not asz:
            continue   # memory handed in from outside (constructor parameter): sizes are decided by R5/R4 at the origin
        for j, (fn, loc, sz) in enumerate(sorted(dealloc_sites[(rect, f)], key=lambda x: (x[0]["name"], x[1]))):
            k = "%s::%s:%s#%d" % (short(rect), f, fn["name"], j)
            if sz in asz:
                out.append(ob("alloc.field", k, loc, "discharged", "deallocate(%s, %s) matches the allocation size" % (f, sz), fn["qname"]))
            else:
                out.append(ob("alloc.field", k, loc, "violated", "field `%s` is allocated with size %s but deallocated here with size %s" % (f, " / ".join(sorted(asz)), sz), fn["qname"]))
    return out


# ----------------------------------------------------------------------------------------------
FOREIGN_EXCEPTIONS = {
    "cpc_compressor": "process-lifetime decoding tables of the CPC compressor singleton (documented; freed in its destructor)",
    "get_compressor": "the process-lifetime CPC compressor singleton itself (not per-sketch memory)",
    "destroy_compressor": "the process-lifetime CPC compressor singleton itself (atexit handler)",
}


def foreign_memory(facts):
    """R6: no new/new[]/delete/malloc/free in library code other than placement new."""
    out = []
    seen = set()
    for fn in facts.functions():
        if fn["pat"] in seen or fn.get("body") is None:
            continue
        seen.add(fn["pat"])
        idx = [0]

        def visit(n):
            bad = None
            if n.get("k") == "New" and "placement" not in n:
                bad = "new%s %s" % ("[]" if n.get("array") else "", n.get("of"))
            elif n.get("k") == "Delete":
                bad = "delete%s" % ("[]" if n.get("array") else "")
            elif n.get("k") == "Call" and n.get("cname") in ("malloc", "calloc", "realloc", "free") and not (n.get("callee") or "").startswith("datasketches::"):
                bad = n.get("cname") + "()"
            if bad:
                k = "%s:%s#%d" % (short(fn["patq"]), bad.split(" ")[0], idx[0])
                idx[0] += 1
                exc = [v for kx, v in FOREIGN_EXCEPTIONS.items() if kx in fn["patq"]]
                if exc:
                    out.append(ob("alloc.foreign", k, n.get("loc", fn["pat"]), "info", "reviewed exception: " + exc[0], fn["qname"]))
                else:
                    out.append(ob("alloc.foreign", k, n.get("loc", fn["pat"]), "violated", "%s bypasses the user-supplied allocator" % bad, fn["qname"]))
        walk(fn["body"], visit)
        walk(fn.get("inits", []), visit)
    return out


def dangling_returns(facts):
    """R8: a function returning a reference must not return a non-static local object (use after release)."""
    out = []
    seen = set()
    for fn in facts.functions():
        if fn["pat"] in seen or fn.get("body") is None or not fn["ret"].endswith("&"):
            continue
        seen.add(fn["pat"])
        locals_ = {}
        walk(fn["body"], lambda n: [locals_.__setitem__(v["d"], v) for v in n.get("vars", []) if "d" in v] if n.get("k") == "Decl" else None)
        rets = []
        walk(fn["body"], lambda n: rets.append(n) if n.get("k") == "Return" and n.get("e") is not None else None)
        bad = None
        for r in rets:
            e = strip(r["e"])
            if e.get("k") == "Ref" and e.get("dk") == "local" and e["d"] in locals_ and not locals_[e["d"]].get("ref"):
                bad = (r, e)
        k = "%s:returns-reference" % short(fn["patq"])
        if bad:
            out.append(ob("lifetime.dangling", k, bad[0].get("loc", fn["pat"]), "violated", "returns a reference to the local object `%s`, which is destroyed on return (use after release)" % bad[1]["n"], fn["qname"]))
        elif rets:
            out.append(ob("lifetime.dangling", k, fn["pat"], "discharged", "no local object returned by reference", fn["qname"]))
    return out


def assign_safety(facts):
    """R9: a copy assignment must not release an owned member before it has finished reading the source
    (self-assignment / exception safety), unless it is guarded by a self-check."""
    out = []
    seen = set()
    for fn in facts.functions():
        if fn.get("special") != "copy-assign" or fn["pat"] in seen or fn.get("body") is None or fn.get("defaulted") or fn.get("implicit"):
            continue
        seen.add(fn["pat"])
        other = fn["params"][0]["d"]
        stmts = fn["body"].get("s", []) if fn["body"].get("k") == "Block" else [fn["body"]]
        self_check = [False]

        def sc(n):
            if n.get("k") == "Bin" and n.get("op") in ("==", "!="):
                sides = [strip(n["l"]), strip(n["r"])]
                if any(x.get("k") == "This" for x in sides) and any(x.get("k") == "Un" and x.get("op") == "&" and mentions_decl(x, other) for x in sides):
                    self_check[0] = True
        walk(fn["body"], sc)

        def releases(n):
            hit = [None]

            def v(x):
                if x.get("k") == "Call" and x.get("cname") == "deallocate" and x.get("args") and is_this_member(x["args"][0]):
                    hit[0] = "deallocate(%s)" % strip(x["args"][0])["f"]
                if x.get("k") == "OpCall" and x.get("op") == "()" and len(x.get("args", [])) >= 2:
                    t0 = x["args"][0].get("t") or ""
                    if ("function<void" in t0 or "deleter" in t0.lower()) and any(is_this_member(a) for a in x["args"][1:]):
                        hit[0] = "deleter invoked on %s" % [strip(a)["f"] for a in x["args"][1:] if is_this_member(a)][0]
                if x.get("k") == "Delete" and is_this_member(x.get("e")):
                    hit[0] = "delete %s" % strip(x["e"])["f"]
            walk(n, v)
            return hit[0]
        rel = None
        bad = None
        for st in stmts:
            if rel and mentions_decl(st, other):
                bad = (rel, st)
                break
            r = releases(st)
            if r and rel is None:
                rel = r
                if mentions_decl(st, other):
                    pass
        k = "%s::copy-assign:release-order" % short(fn["rect"])
        if bad and not self_check[0]:
            out.append(ob("special.assign-safety", k, bad[1].get("loc", fn["pat"]), "violated", "copy assignment releases an owned member (%s) and reads the source afterwards, with no self-assignment guard: `x = x` uses freed memory" % bad[0], fn["qname"]))
        else:
            out.append(ob("special.assign-safety", k, fn["pat"], "discharged", "source is read before any owned member is released (or self-assignment is guarded)", fn["qname"]))
    return out


def raw_slot_flag(facts):
    """var_opt_sketch: `filled_data_ == true` means every slot of data_ (including the gap slot h_) holds a live object, and the
    destructor / reset destroy accordingly. A function that gives data_ fresh raw memory (allocate) constructs at most the H and
    R regions and never the gap, so filled_data_ must be the constant false when it returns."""
    from astu import functions_by, stmts_of, is_this_field, txt
    fns = functions_by(facts, ["sampling"])
    out = []
    for pat, fn in sorted(fns.items()):
        if fn.get("rect") != "datasketches::var_opt_sketch":
            continue
        fresh = []

        def v(n):
            if n.get("k") == "Assign" and n.get("op") == "=" and is_this_field(n["l"], ("data_",)):
                inner = []
                walk(n["r"], lambda x: inner.append(x) if x.get("k") == "Call" and x.get("cname") == "allocate" else None)
                if inner:
                    fresh.append(n)
            if n.get("k") == "Call" and n.get("cname") == "allocate_data_arrays":
                fresh.append(n)
        walk(fn["body"], v)
        if not fresh or fn["name"] in ("grow_data_arrays",):
            continue  # grow moves the live items and clears the flag itself under its own condition
        last = None
        for i in fn.get("inits", []):
            if i.get("written") and i.get("field") == "filled_data_":
                last = (i["e"], i["e"].get("loc", fn["pat"]))
        for s in stmts_of(fn["body"]):
            if s.get("k") == "Expr":
                e = strip(s["e"])
                if e.get("k") == "Assign" and e.get("op") == "=" and is_this_field(e["l"], ("filled_data_",)):
                    last = (e["r"], e["loc"])
                if e.get("k") == "Call" and e.get("cname") == "allocate_data_arrays":
                    last = ({"k": "Bool", "v": False, "via": "allocate_data_arrays"}, e["loc"])  # that helper is itself an instance of this rule
        k = "var_opt_sketch::%s:raw-gap-flag" % (fn["name"] + ("(%s)" % (fn.get("special") or len(fn["params"])) if fn["name"] == "var_opt_sketch" else ""))
        val = strip_all(last[0]) if last else None
        if val is not None and (val.get("k") == "Bool" and val.get("v") in (False, 0) or val.get("v") == 0 and val.get("k") in ("Bool", "Int", "Cast")):
            out.append(ob("lifecycle.raw-slot-flag", k, last[1], "discharged", "data_ receives raw memory here and filled_data_ is false on return", fn["qname"]))
        else:
            out.append(ob("lifecycle.raw-slot-flag", k, (last[1] if last else fn["pat"]), "violated", "data_ receives freshly allocated raw memory in this function (gap slot never constructed) but filled_data_ is `%s` on return: the destructor / reset / next update treat the raw gap slot as a live object (destroying or assigning to an unconstructed item)" % (txt(val) if val is not None else "unset"), fn["qname"]))
    return out


def _handled_fields(node):
    h = set()

    def visit(n):
        if n.get("k") == "Call" and n.get("cname") == "swap" and len(n.get("args", [])) == 2:
            for x in n["args"]:
                if is_this_member(x):
                    h.add(strip(x)["f"])
        if n.get("k") == "Assign" and n.get("op") == "=" and is_this_member(n["l"]):
            h.add(strip(n["l"])["f"])
        if n.get("k") == "OpCall" and n.get("op") == "=" and len(n.get("args", [])) == 2 and is_this_member(n["args"][0]):
            h.add(strip(n["args"][0])["f"])
    walk(node, visit)
    return h


def assign_fast_paths(facts):
    """user-written assignment operators: every early-returning branch other than the self-assignment test must itself bring every
    field over (fields the branch condition proves equal to the source's are exempt) - a 'fast path' that copies only the data
    leaves flags / cached state of the target stale."""
    from astu import stmts_of, always_exits, txt
    recs = {}
    for r in facts.records():
        recs.setdefault(r["tmpl"], r)
    out = []
    seen = set()
    for fn in facts.functions():
        if fn.get("special") not in ("copy-assign", "move-assign") or fn["pat"] in seen or fn.get("body") is None or fn.get("defaulted") or fn.get("implicit") or not fn["params"]:
            continue
        seen.add(fn["pat"])
        r = recs.get(fn["rect"])
        if not r:
            continue
        other = fn["params"][0]["d"]
        fields = [f["n"] for f in r["fields"] if f["n"] and not f.get("mutable")]
        acc = set()
        base = "%s::%s" % (short(fn["rect"]), fn["special"])
        nfast = 0
        for s in stmts_of(fn["body"]):
            if s.get("k") == "If" and always_exits(s.get("t")):
                c = txt(s["c"]).replace(" ", "")
                selftest = c in ("(this==&%s)" % fn["params"][0]["n"], "(&%s==this)" % fn["params"][0]["n"])
                if selftest:
                    out.append(ob("special.fast-path", base + ":self-test", s["loc"], "discharged", "early return on self-assignment", fn["qname"]))
                    continue
                nfast += 1
                # fields proved equal by the condition: `f == other.f` conjuncts and `f && other.f`
                eq = set()

                def conj(e):
                    e = strip_all(e)
                    if e.get("k") == "Bin" and e.get("op") == "&&":
                        return conj(e["l"]) + conj(e["r"])
                    return [e]
                cs = conj(s["c"])
                plain_this = {strip(x)["f"] for x in cs if is_this_member(x)}
                plain_other = {member_of(x, other) for x in cs if member_of(x, other)}
                eq |= plain_this & plain_other
                for x in cs:
                    if x.get("k") == "Bin" and x.get("op") == "==":
                        for a, b in ((x["l"], x["r"]), (x["r"], x["l"])):
                            if is_this_member(a) and member_of(b, other) == strip(a)["f"]:
                                eq.add(strip(a)["f"])
                h = acc | _handled_fields(s["t"]) | eq
                missing = [f for f in fields if f not in h]
                key = "%s:fast-path#%d" % (base, nfast - 1)
                if missing:
                    out.append(ob("special.fast-path", key, s["loc"], "violated", "the early-returning branch `if %s` of %s brings over only part of the object; field(s) %s keep the target's old value on that path" % (txt(s["c"])[:80], fn["special"], ", ".join("`%s`" % m for m in missing), ), fn["qname"]))
                else:
                    out.append(ob("special.fast-path", key, s["loc"], "discharged", "early-returning branch handles every field", fn["qname"]))
            else:
                acc |= _handled_fields(s)
        out.append(ob("special.fast-path", base + ":paths", fn["pat"], "discharged", "%d early-returning branch(es) besides the self test, each complete" % nfast if nfast else "single path (no early return besides an optional self-assignment test)", fn["qname"]))
    return out


OCCUPANCY_ARRAYS = [
    # record, field, reason: every element is read before it is necessarily written (slot state / key / bit), so fresh memory
    # must be initialised over its whole extent
    ("datasketches::reverse_purge_hash_map", "states_", "slot occupancy: probing reads the state of slots that were never filled"),
    ("datasketches::theta_update_sketch_base", "entries_", "key 0 marks an empty slot: find() reads the key of every probed slot"),
    ("datasketches::bloom_filter_alloc", "bit_array_", "every bit is meaningful from the start"),
]


def full_init(facts):
    """arrays whose every element is meaningful from allocation on (occupancy states, hash-table keys, bits): each function that
    gives the field fresh memory must initialise its whole extent - a std::fill / fill_n / copy / copy_n / memset / memcpy with
    the field as destination over the allocated size, or a counted loop 0..size with no break that writes element i on every
    path - in the same block, after the allocation."""
    from astu import functions_by, stmts_of, is_this_field, txt, local_decls, field_name
    fns = functions_by(facts)
    out = []
    want = {(r, f): why for r, f, why in OCCUPANCY_ARRAYS}
    seen_fields = set()

    def blocks(n, acc):
        if isinstance(n, dict):
            if n.get("k") == "Block":
                acc.append(n)
            for v in n.values():
                blocks(v, acc)
        elif isinstance(n, list):
            for v in n:
                blocks(v, acc)
        return acc
    for pat, fn in sorted(fns.items()):
        rect = fn.get("rect")
        fields = [f for (r, f) in want if r == rect]
        if not fields or fn.get("body") is None:
            continue
        from astu import inlined_body, single_assignment_locals
        by_pat = {f["pat"]: f for f in fns.values()}
        body = inlined_body(fn, by_pat)     # a private helper that clears the array is seen through
        inl = single_assignment_locals(dict(fn, body=body))
        idx = 0
        for b in blocks(body, []):
            st = stmts_of(b)
            for i, s in enumerate(st):
                if s.get("k") != "Expr":
                    continue
                e = strip(s["e"])
                if not (e.get("k") == "Assign" and e.get("op") == "=" and is_this_field(e["l"], fields)):
                    continue
                al = []
                walk(e["r"], lambda x: al.append(x) if x.get("k") == "Call" and x.get("cname") == "allocate" else None)
                if not al:
                    continue
                fld = field_name(e["l"])
                seen_fields.add((rect, fld))
                size = txt(al[0]["args"][0], inl).replace(" ", "") if al[0].get("args") else "?"
                key = "%s::%s%s:%s-fully-initialised#%d" % (short(rect), fn["name"], "(%s)" % fn["special"] if fn.get("special") else "", fld, idx)
                idx += 1
                ok, how = False, ""
                for nxt in st[i + 1:]:
                    if nxt.get("k") == "Expr":
                        c = strip_all(nxt["e"])
                        if c.get("k") == "Call" and c.get("cname") in ("fill", "fill_n", "copy", "copy_n", "memset", "memcpy", "uninitialized_fill_n"):
                            a = c.get("args", [])
                            dest = a[2] if c["cname"] in ("copy", "copy_n") and len(a) == 3 else (a[0] if a else None)
                            if dest is not None and is_this_field(strip_all(dest), (fld,)):
                                ext = " ".join(txt(x, inl).replace(" ", "") for x in a)
                                if size in ext:
                                    ok, how = True, "%s over %s" % (c["cname"], size)
                                    break
                    if nxt.get("k") == "For":
                        cnd = txt(nxt.get("c"), inl).replace(" ", "") if nxt.get("c") else ""
                        jumps = []
                        walk(nxt.get("b"), lambda x: jumps.append(x["k"]) if x.get("k") in ("Break", "Return", "Continue", "Goto") else None)
                        if not cnd.endswith("<%s)" % size):
                            continue

                        def writes(n):
                            """does every path through statement n write fld[i]?"""
                            if n is None:
                                return False
                            if n.get("k") == "Block":
                                return any(writes(x) for x in stmts_of(n))
                            if n.get("k") == "If":
                                return n.get("e") is not None and writes(n["t"]) and writes(n["e"])
                            if n.get("k") == "Expr":
                                hit = [False]

                                def v(x):
                                    if x.get("k") == "Assign":
                                        l = []
                                        walk(x["l"], lambda y: l.append(y) if is_this_field(y, (fld,)) else None)
                                        if l:
                                            hit[0] = True
                                    if x.get("k") == "New" and x.get("placement") is not None:
                                        l = []
                                        walk(x["placement"], lambda y: l.append(y) if is_this_field(y, (fld,)) else None)
                                        if l:
                                            hit[0] = True
                                walk(n, v)
                                return hit[0]
                            return False
                        if writes(nxt.get("b")):
                            if jumps:
                                how = "the loop over 0..%s that writes %s[i] can leave early (%s): elements after the exit stay uninitialised" % (size, fld, "/".join(sorted(set(jumps))))
                            else:
                                ok, how = True, "counted loop 0..%s writes %s[i] on every path" % (size, fld)
                                break
                if ok:
                    out.append(ob("lifecycle.full-init", key, s["loc"], "discharged", how, fn["qname"]))
                else:
                    out.append(ob("lifecycle.full-init", key, s["loc"], "violated", "%s receives fresh memory of %s elements but is not initialised over its whole extent afterwards (%s): %s" % (fld, size, how or "no fill/copy over the full size and no complete counted loop", want[(rect, fld)]), fn["qname"]))
    for (r, f) in want:
        if (r, f) not in seen_fields:
            out.append(ob("lifecycle.full-init", "%s:%s:anchor" % (short(r), f), r, "unrecognised", "no allocation of this field found", ""))
    return out


DIAGNOSTIC_FNS = ("to_string", "type_as_string", "mode_as_string", "print", "operator<<")


def container_allocators(facts):
    """'all memory is obtained through the allocator supplied by the user': analysed on drivers/x_alloc.cpp, where every family is
    instantiated with verif_alloc<T> (not std::allocator), so the allocator of every container in the typed AST is visible.
    (1) no std::vector / std::basic_string constructed, declared or held as a field by allocator-parameterised library code may
    use an allocator type other than the user's; (2) every construction of such a container passes an allocator instance
    (constructor has an allocator parameter) or copies / moves an existing container - a default-constructed allocator is a
    different instance for stateful allocators.  Diagnostic formatting (to_string via std::ostringstream) is a reviewed exception."""
    from astu import functions_by
    d = facts.load("x_alloc")
    out = []
    seen = set()
    n_ok = 0
    for fn in d["functions"]:
        if "verif_alloc" not in fn["qname"] or fn.get("body") is None or fn["pat"] in seen:
            continue
        if not fn["pat"].split("/")[0] in ("common", "theta", "tuple", "hll", "cpc", "kll", "req", "quantiles", "fi", "count", "sampling", "tdigest", "filters", "density"):
            continue
        seen.add(fn["pat"])
        diag = fn["name"] in DIAGNOSTIC_FNS
        idx = [0]

        def v(n):
            nonlocal n_ok
            if n.get("k") != "Construct":
                return
            t = n.get("t") or ""
            if not re.match(r"(const )?std::(vector|basic_string)<", t):
                return
            pt = n.get("ptypes") or []
            key = "%s:%s#%d" % (short(fn["patq"]), "container", idx[0])
            if "verif_alloc" not in t:
                idx[0] += 1
                if diag:
                    out.append(ob("container.foreign-allocator", key, n["loc"], "info", "diagnostic formatting uses %s (reviewed exception)" % t[:50], fn["qname"]))
                else:
                    out.append(ob("container.foreign-allocator", key, n["loc"], "violated", "`%s` constructed inside %s although the sketch was instantiated with a user allocator: this memory comes from std::allocator (global operator new), not from the allocator supplied by the user" % (t[:60], fn["name"]), fn["qname"]))
                return
            copyish = len(pt) == 1 and re.match(r"(const )?std::(vector|basic_string)<", pt[0])
            has_alloc = any("verif_alloc" in p and not re.match(r"(const )?std::(vector|basic_string|initializer_list)<", p) for p in pt)
            if copyish or has_alloc:
                n_ok += 1
                return
            idx[0] += 1
            if diag:
                out.append(ob("container.allocator-passed", key, n["loc"], "info", "diagnostic formatting (reviewed exception)", fn["qname"]))
            else:
                out.append(ob("container.allocator-passed", key, n["loc"], "violated", "`%s` constructed in %s without an allocator argument (%s): it allocates through a default-constructed instance of the user's allocator type instead of the instance held by the sketch" % (t[:70], fn["name"], "ctor(%s)" % ", ".join(x[:30] for x in pt)), fn["qname"]))
        walk(fn["body"], v)
        for i in fn.get("inits", []):
            if i.get("e"):
                walk(i["e"], v)
    out.append(ob("container.allocator-passed", "all:constructions", "", "discharged", "%d container constructions in allocator-parameterised code pass the user's allocator or copy/move an existing container" % n_ok, ""))
    nf = 0
    for r in d["records"]:
        q = r.get("qname") or ""
        if "verif_alloc" not in q:
            continue
        for f in r["fields"]:
            t = f["t"]
            if re.search(r"std::(vector|basic_string|map|set|deque|list|unordered_map)<", t):
                nf += 1
                key = "%s::%s:field-allocator" % (short(r.get("tmpl") or q), f["n"])
                if "verif_alloc" in t:
                    out.append(ob("container.foreign-allocator", key, r.get("loc", ""), "discharged", "field uses the user's allocator type", q))
                else:
                    out.append(ob("container.foreign-allocator", key, r.get("loc", ""), "violated", "field `%s` has type `%s`: a member container with std::allocator inside a sketch instantiated with a user allocator" % (f["n"], t[:70]), q))
    if n_ok < 50 or nf < 10:
        out.append(ob("container.allocator-passed", "anchor", "", "unrecognised", "only %d constructions / %d fields recognised in the custom-allocator instantiation" % (n_ok, nf), ""))
    return out


RESET_EXEMPT = {
    ("datasketches::ebpps_sketch", "tmp_"): "scratch sample, re-initialised before each use",
    ("datasketches::ebpps_sketch", "k_"): "configuration: merge lowers k to the smaller operand's k and reset keeps the configured size",
    ("datasketches::var_opt_sketch", "k_"): "only the union's gadget decreases k; the union's reset rebuilds the gadget",
    ("datasketches::optional", ""): "placement storage",
}


def reset_completeness(facts, records=None):
    """every field that some mutator of a class modifies is re-initialised by the class's reset() (directly, through a member's own
    reset / assignment, or through an own helper it calls); reviewed exceptions are configuration fields.  A state field that
    survives reset() (a cache of the last hash, a counter, a flag) makes a reused object differ from a fresh one."""
    import collections
    import cowrite
    from astu import functions_by
    fns = functions_by(facts)
    byrec = collections.defaultdict(list)
    for p, fn in fns.items():
        if fn.get("rect"):
            byrec[fn["rect"]].append(fn)
    out = []
    nrec = 0
    for rec, fl in sorted(byrec.items()):
        if records is not None and short(rec) not in records:
            continue
        resets = [f for f in fl if f["name"] == "reset" and f["kind"] == "method" and f.get("body") is not None]
        if not resets:
            continue

        def writes(fn, depth=0, seen=None):
            seen = seen if seen is not None else set()
            W = {f for (o, f) in cowrite.direct_writes(fn) if o == "this"}
            if depth < 3:
                def v(n):
                    if n.get("k") == "Call" and n.get("member") and strip_all(n.get("obj") or {}).get("k") == "This":
                        for g in fl:
                            if g["name"] == n.get("cname") and g["pat"] not in seen and g.get("body") is not None:
                                seen.add(g["pat"])
                                W.update(writes(g, depth + 1, seen))
                walk(fn["body"], v)
            return W
        Wr = set()
        for r in resets:
            Wr |= writes(r)
        if not Wr:
            continue
        nrec += 1
        Wm = collections.defaultdict(set)
        # helpers that exist only for the special members (a `swap_state(other)` shared by the two assignment operators) are part
        # of those, not mutators of their own
        callers = collections.defaultdict(set)
        for f in fl:
            if f.get("body") is None:
                continue
            walk(f["body"], lambda n, f=f: callers[n.get("cname")].add(f["pat"]) if n.get("k") == "Call" and n.get("cname") and (n.get("obj") is None or strip_all(n.get("obj") or {}).get("k") == "This") else None)
        by_pat_l = {f["pat"]: f for f in fl}

        def only_special(name, depth=0, seen=()):
            cs = callers.get(name) or set()
            if not cs or depth > 3:
                return False
            for cp in cs:
                g = by_pat_l.get(cp)
                if g is None:
                    return False
                if g.get("special") or g["kind"] in ("ctor", "dtor"):
                    continue
                if g["name"] in seen or not only_special(g["name"], depth + 1, seen + (name,)):
                    return False
            return True
        for f in fl:
            if f["kind"] != "method" or f.get("special") or f["name"] == "reset" or f.get("const") or f.get("static") or f.get("body") is None:
                continue
            if only_special(f["name"]):
                continue
            for w in writes(f):
                Wm[w].add(f["name"])
        for w in sorted(Wm):
            key = "%s::reset:resets-%s" % (short(rec), w or "storage")
            if w in Wr:
                out.append(ob("lifecycle.reset-complete", key, resets[0]["pat"], "discharged", "modified by %s, re-initialised by reset()" % ", ".join(sorted(Wm[w])[:3]), resets[0]["qname"]))
            elif (rec, w) in RESET_EXEMPT:
                out.append(ob("lifecycle.reset-complete", key, resets[0]["pat"], "info", "reviewed exception: " + RESET_EXEMPT[(rec, w)], resets[0]["qname"]))
            else:
                out.append(ob("lifecycle.reset-complete", key, resets[0]["pat"], "violated", "field `%s` is modified by %s but reset() never re-initialises it: after reset() the object still carries state from before (a reused sketch differs from a fresh one)" % (w, ", ".join(sorted(Wm[w])[:3])), resets[0]["qname"]))
    if records is None and nrec < 8:
        out.append(ob("lifecycle.reset-complete", "anchor", "", "unrecognised", "only %d classes with reset() analysed" % nrec, ""))
    return out


def engaged_flag(facts):
    """datasketches::optional<T>: `initialized_` is the typestate of the raw storage `value_`.  Outside constructors it becomes true
    only next to a placement-new of value_, and false only next to the destruction of value_ (reset()); it is never copied from
    another object - an engaged target that takes over a source's `false` keeps a live T that is never destroyed (and a later
    emplace constructs over it)."""
    from astu import functions_by, is_this_field, txt
    fns = functions_by(facts)
    out = []
    seen = set()
    for pat, fn in sorted(fns.items()):
        if (fn.get("rect") or "") != "datasketches::optional" or fn.get("body") is None or fn["pat"] in seen:
            continue
        seen.add(fn["pat"])
        writes = []
        walk(fn["body"], lambda n: writes.append(n) if n.get("k") == "Assign" and is_this_field(n["l"], ("initialized_",)) else None)
        if not writes:
            continue
        news, dtors = [], []
        walk(fn["body"], lambda n: news.append(n) if n.get("k") == "New" else None)
        walk(fn["body"], lambda n: dtors.append(n) if (n.get("k") == "PseudoDtor") or (n.get("k") == "Call" and (n.get("cname") or "").startswith("~")) or (n.get("k") == "Call" and n.get("cname") == "reset") else None)
        for i, w in enumerate(writes):
            key = "optional::%s:%s:flag-write#%d" % (fn["name"], fn.get("special") or len(fn.get("params", [])), i)
            r = strip_all(w["r"])
            if r.get("k") == "Bool" and r.get("b"):
                ok = bool(news)
                out.append(ob("lifecycle.engaged-flag", key, w.get("loc", fn["pat"]), "discharged" if ok else "violated", "set next to the placement-new of value_" if ok else "initialized_ is set to true in a function that never constructs value_", fn["qname"]))
            elif r.get("k") == "Bool":
                ok = bool(dtors) or fn["kind"] == "ctor"
                out.append(ob("lifecycle.engaged-flag", key, w.get("loc", fn["pat"]), "discharged" if ok else "violated", "cleared next to the destruction of value_" if ok else "initialized_ is cleared in a function that never destroys value_", fn["qname"]))
            else:
                out.append(ob("lifecycle.engaged-flag", key, w.get("loc", fn["pat"]), "violated", "initialized_ is assigned `%s`: the flag is copied instead of following the construction / destruction of value_ - an engaged optional that takes over `false` keeps a live value that is never destroyed (leaked items after sketch assignment / swap)" % txt(w["r"]), fn["qname"]))
    return out
