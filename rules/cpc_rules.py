"""C05 CPC: exhaustive predicates over the compression tables (complete prefix codes, bijective permutations, definitional
tables), wrapping probes in the coupon table, masked row folding in the union, reduce_k dominance."""
from fractions import Fraction
import re
import astu
from astu import C, ctxt, gt_pair, eq_const, reach, reach_txt, ctext, strip, strip_all, walk, walkp, txt, short, is_this_field, field_name, stmts_of, always_throws, functions_by, local_decls
from vlib.core import ob


def glob(facts, name):
    for g in facts.globals(["cpc"]):
        if g["qname"] == name:
            return g
    return None


def prefix_code_problems(entries):
    """entries: list of uint16 (len << 12 | code), LSB-first codes. Returns list of problems."""
    probs = []
    codes = []
    kraft = Fraction(0)
    for sym, e in enumerate(entries):
        ln, code = e >> 12, e & 0xfff
        if ln < 1 or ln > 12:
            probs.append("symbol %d has code length %d (must be 1..12)" % (sym, ln))
            continue
        if code >> ln:
            probs.append("symbol %d: code %#x has bits above its length %d" % (sym, code, ln))
        kraft += Fraction(1, 1 << ln)
        codes.append((ln, code, sym))
    if kraft != 1:
        probs.append("Kraft sum is %s, not 1: the code is %s, the 4096-entry decoding table is not total" % (kraft, "incomplete" if kraft < 1 else "over-full"))
    # prefix-free in LSB-first order: shorter code equals the low bits of a longer one
    codes.sort()
    seen = {}
    for ln, code, sym in codes:
        for l2 in range(1, ln):
            k = (l2, code & ((1 << l2) - 1))
            if k in seen:
                probs.append("code of symbol %d is a prefix of the code of symbol %d" % (seen[k], sym))
                break
        if (ln, code) in seen:
            probs.append("symbols %d and %d share a code" % (seen[(ln, code)], sym))
        seen[(ln, code)] = sym
    return probs


def table_rules(facts):
    out = []
    g = glob(facts, "datasketches::encoding_tables_for_high_entropy_byte")
    if g is None or not g.get("value"):
        out.append(ob("cpc.tables", "encoding_tables_for_high_entropy_byte:present", "", "unrecognised", "table not found", ""))
    else:
        for i, t in enumerate(g["value"]):
            p = prefix_code_problems(t)
            out.append(ob("cpc.tables", "encoding_tables_for_high_entropy_byte[%d]:prefix-code" % i, g["loc"], "violated" if p else "discharged", "; ".join(p[:3]) if p else "256 code words form a complete prefix code (Kraft sum 1, lengths <= 12): decode(encode(b)) = b for every byte", "encoding_tables_for_high_entropy_byte"))
    g = glob(facts, "datasketches::length_limited_unary_encoding_table65")
    if g is None or not g.get("value"):
        out.append(ob("cpc.tables", "length_limited_unary_encoding_table65:present", "", "unrecognised", "table not found", ""))
    else:
        p = prefix_code_problems(g["value"])
        out.append(ob("cpc.tables", "length_limited_unary_encoding_table65:prefix-code", g["loc"], "violated" if p else "discharged", "; ".join(p[:3]) if p else "65 code words form a complete prefix code", "length_limited_unary_encoding_table65"))
    g = glob(facts, "datasketches::column_permutations_for_encoding")
    if g is None or not g.get("value"):
        out.append(ob("cpc.tables", "column_permutations_for_encoding:present", "", "unrecognised", "table not found", ""))
    else:
        for i, t in enumerate(g["value"]):
            ok = sorted(t) == list(range(56))
            out.append(ob("cpc.tables", "column_permutations_for_encoding[%d]:bijection" % i, g["loc"], "discharged" if ok else "violated", "bijection on 0..55" if ok else "not a permutation of 0..55 (duplicates %s): the inverse used for decoding cannot restore the columns" % sorted({x for x in t if t.count(x) > 1}), "column_permutations_for_encoding"))
    g = None
    for gg in facts.globals():
        if gg["qname"] == "datasketches::byte_trailing_zeros_table":
            g = gg
    if g and g.get("value"):
        want = [8] + [(b & -b).bit_length() - 1 for b in range(1, 256)]
        ok = g["value"] == want
        out.append(ob("cpc.tables", "byte_trailing_zeros_table:definition", g["loc"], "discharged" if ok else "violated", "equals the number of trailing zeros of every byte" if ok else "differs from the definition at %s" % [i for i in range(256) if g["value"][i] != want[i]][:5], "byte_trailing_zeros_table"))
    g = glob(facts, "datasketches::KXP_BYTE_TABLE")
    if g and g.get("value"):
        bad = []
        for b in range(256):
            want = sum(2.0 ** -(j + 1) for j in range(8) if not (b >> j) & 1)
            if abs(g["value"][b] - want) > 1e-15:
                bad.append(b)
        out.append(ob("cpc.tables", "KXP_BYTE_TABLE:definition", g["loc"], "violated" if bad else "discharged", ("entries %s differ from sum over clear bits j of 2^-(j+1)" % bad[:5]) if bad else "every entry equals the sum over clear bits j of 2^-(j+1)", "KXP_BYTE_TABLE"))
    return out


def _all_nodes(n):
    acc = []
    walk(n, lambda x: acc.append(x))
    return acc


def probe_rules(facts):
    """u32_table probes advance with `(p + 1) & mask` only (the table is circular).  Independent of local names: a probe loop is a
    loop whose condition reads `slots[..]` directly or through a local that is assigned from `slots[..]`; the cursor is the local
    that indexes `slots` inside the loop; every value given to the cursor inside the loop must be `(cursor + 1) & ((1 << lg_size) - 1)`."""
    from astu import single_assignment_locals
    from triggers import plainly_assigned_locals
    fns = functions_by(facts, ["cpc"])
    out = []
    for pat, fn in sorted(fns.items()):
        if fn.get("rect") != "datasketches::u32_table" or fn["name"] not in ("lookup", "maybe_delete"):
            continue
        sa = single_assignment_locals(fn)
        pa = plainly_assigned_locals(fn)
        loops = []
        walk(fn["body"], lambda n: loops.append(n) if n.get("k") in ("While", "For", "Do") else None)
        key = "u32_table::%s:circular-probe" % fn["name"]
        probs = []
        n_adv = 0

        def reads_slots(e):
            hit = [False]

            def v(x):
                if x.get("k") in ("Index", "OpCall") and txt(x).startswith("slots["):
                    hit[0] = True
                if x.get("k") == "Ref" and x.get("d") in pa and any(txt(val).startswith("slots[") for val in pa[x["d"]]):
                    hit[0] = True
            walk(e, v)
            return hit[0]
        for L in loops:
            # the exit test reads the table: in the loop condition, or in an `if (..) break / return` of a `while (true)` body
            exits = []
            walk(L.get("b"), lambda n: exits.append(n) if n.get("k") == "If" and reads_slots(n.get("c")) and any(x.get("k") in ("Break", "Return") for x in _all_nodes(n.get("t"))) else None)
            if not ((L.get("c") is not None and reads_slots(L["c"])) or exits):
                continue
            # cursors: locals used as the index of slots inside the loop (or in its condition)
            cursors = set()

            def cur(x):
                if x.get("k") == "Index" and txt(x.get("b")) == "slots":
                    i = strip(x.get("i"))
                    if isinstance(i, dict) and i.get("k") == "Ref" and i.get("dk") == "local":
                        cursors.add(i["d"])
                if x.get("k") == "OpCall" and x.get("op") == "[]" and len(x.get("args", [])) == 2 and txt(x["args"][0]) == "slots":
                    i = strip(x["args"][1])
                    if isinstance(i, dict) and i.get("k") == "Ref" and i.get("dk") == "local":
                        cursors.add(i["d"])
            walk(L, cur)
            advs = []
            walk(L, lambda n: advs.append(n) if (n.get("k") == "Assign" and strip(n["l"]).get("k") == "Ref" and strip(n["l"]).get("d") in cursors) or (n.get("k") == "Un" and n.get("op") in ("++", "--") and strip(n["e"]).get("k") == "Ref" and strip(n["e"]).get("d") in cursors) else None)
            for a in advs:
                with astu.with_getters(fns):
                    adv_t = txt(a["r"], sa).replace(" ", "") if a.get("k") == "Assign" else ""
                if a.get("k") == "Assign" and a.get("op") == "=" and adv_t == "((%s+1)&((1<<lg_size)-1))" % strip(a["l"])["n"]:
                    n_adv += 1
                else:
                    probs.append("probe advanced by `%s` (not `(p + 1) & mask`)" % txt(a))
            if L.get("k") == "For" and L.get("inc") is not None and not advs:
                probs.append("the probe sequence is a bounded `for` loop (`%s`): it stops at the end of the array instead of wrapping to slot 0" % txt(L.get("c")))
        if probs:
            out.append(ob("cpc.probe", key, fn["pat"], "violated", "; ".join(probs) + ": entries of a cluster that wraps past the last slot become unreachable", fn["qname"]))
        elif n_adv:
            out.append(ob("cpc.probe", key, fn["pat"], "discharged", "%d probe advance(s), all `(p + 1) & mask`" % n_adv, fn["qname"]))
        else:
            out.append(ob("cpc.probe", key, fn["pat"], "unrecognised", "no probe loop recognised", fn["qname"]))
    return out


def union_rules(facts):
    fns = functions_by(facts, ["cpc"])
    out = []
    for pat, fn in sorted(fns.items()):
        if fn.get("rect") != "datasketches::cpc_union_alloc":
            continue
        if fn["name"] in ("or_table_into_matrix", "or_window_into_matrix", "or_matrix_into_matrix"):
            key = "cpc_union_alloc::%s:masked-fold" % fn["name"]
            d = {v["n"]: txt(v["init"]).replace(" ", "") for v in local_decls(fn).values() if v.get("init") is not None}
            masks = [n for n, t in d.items() if t == "((1<<lg_k)-1)"]
            stores = []
            walk(fn["body"], lambda n: stores.append(n) if n.get("k") in ("Assign", "OpCall") and n.get("op") == "|=" else None)
            ok = bool(masks) and stores and all(("&%s)]" % masks[0]) in txt((s.get("args") or [s.get("l")])[0]).replace(" ", "") for s in stores)
            jumps = []
            if ok:
                out.append(ob("cpc.fold", key, fn["pat"], "discharged", "every OR into the matrix addresses row `src_row & ((1 << lg_k) - 1)`", fn["qname"]))
            else:
                out.append(ob("cpc.fold", key, fn["pat"], "violated", "a matrix row is addressed without folding the source row by `& ((1 << lg_k) - 1)` (%s): rows of a higher-precision input fall outside or onto the wrong row" % [txt((s.get("args") or [s.get("l")])[0]) for s in stores][:2], fn["qname"]))
        if fn["name"] == "reduce_k":
            key = "cpc_union_alloc::reduce_k:fresh-matrix-fold"
            direct = []
            walk(fn["body"], lambda n: direct.append(n) if n.get("k") in ("Assign", "OpCall") and n.get("op") == "|=" else None)
            calls = []
            walk(fn["body"], lambda n: calls.append(n) if n.get("k") == "Call" and n.get("cname") == "or_matrix_into_matrix" else None)
            newm = []
            walk(fn["body"], lambda n: newm.append(txt(n)) if n.get("k") in ("Assign", "OpCall") and n.get("op") == "=" and "bit_matrix" in txt((n.get("args") or [n.get("l")])[0]) else None)
            resize = []
            walk(fn["body"], lambda n: resize.append(n) if n.get("k") == "Call" and n.get("cname") in ("resize", "erase") and n.get("obj") is not None and "bit_matrix" in txt(n["obj"]) else None)
            ok = calls and not direct and not resize and any("new_k" in t or "new_lg_k" in t for t in newm)
            if ok:
                out.append(ob("cpc.fold", key, fn["pat"], "discharged", "the old matrix is folded into a fresh zeroed matrix of 1 << new_lg_k rows through or_matrix_into_matrix", fn["qname"]))
            else:
                out.append(ob("cpc.fold", key, fn["pat"], "violated", "reduce_k folds the bit matrix in place / without or_matrix_into_matrix (direct |=: %d, resize: %d): a fold that is exact only for halving loses the rows at or above 2 * new_k" % (len(direct), len(resize)), fn["qname"]))
        if fn["name"] == "internal_update":
            # the source's rows are folded with the SOURCE's lg_k: the lg_k argument of or_window_into_matrix / or_matrix_into_matrix
            # is the incoming sketch's get_lg_k() (the union's own lg_k is smaller or equal and would drop the upper rows)
            import triggers
            env = triggers.flat_env(fn)
            src = fn["params"][0]["d"] if fn.get("params") else None
            for cname, argi in (("or_window_into_matrix", 2), ("or_matrix_into_matrix", 1)):
                for j, c in enumerate(x for x in _calls(fn["body"]) if x.get("cname") == cname and len(x.get("args", [])) > argi):
                    ids, consts = [], []
                    triggers.idc(c["args"][argi], env, ids, consts)
                    key = "cpc_union_alloc::internal_update:%s#%d:source-lg_k" % (cname, j)
                    ok = "get_lg_k" in ids and "param#0" in [str(i) for i in ids]
                    out.append(ob("cpc.fold", key, c.get("loc", fn["pat"]), "discharged" if ok else "violated",
                                  "rows of the source are folded with the source's lg_k" if ok else "`%s` folds the source's rows with `%s`, which is not the incoming sketch's lg_k: with a source of higher precision only the first 2^lg_k rows are OR'ed in, the coupons of the upper rows are lost" % (txt(c)[:80], txt(c["args"][argi])), fn["qname"]))
            st = stmts_of(fn["body"])
            from astu import single_assignment_locals
            sa = single_assignment_locals(fn)
            red, first_merge = None, None
            for i, s in enumerate(st):
                t = txt(s.get("c"), sa) if s.get("k") == "If" else ""
                if s.get("k") == "If" and "get_lg_k()" in t and (gt_pair(s["c"]) or (0, 0, 0))[2] and "get_lg_k()" in txt(gt_pair(s["c"])[1], sa) and any(x.get("cname") == "reduce_k" for x in _calls(s.get("t"))) and red is None:
                    red = i
                if first_merge is None and any(x.get("cname") in ("or_table_into_matrix", "or_window_into_matrix", "or_matrix_into_matrix", "walk_table_updating_sketch") for x in _calls(s)):
                    first_merge = i
            key = "cpc_union_alloc::internal_update:reduce_k-first"
            if red is not None and (first_merge is None or red < first_merge):
                out.append(ob("cpc.fold", key, fn["pat"], "discharged", "`if (sketch.get_lg_k() < lg_k) reduce_k(...)` precedes every merge step", fn["qname"]))
            else:
                out.append(ob("cpc.fold", key, fn["pat"], "violated", "a merge step can run before the union was reduced to the smaller lg_k of the input", fn["qname"]))
    return out


def _calls(n):
    out = []
    walk(n, lambda x: out.append(x) if x.get("k") == "Call" else None)
    return out


def pair_codec(facts):
    """row/col pairs: (row << 6) | col everywhere, col = pair & 63, row = pair >> 6"""
    fns = functions_by(facts, ["cpc"])
    out = []
    n = 0
    bad = []
    for pat, fn in sorted(fns.items()):
        if not pat.startswith("cpc/"):
            continue

        def v(x):
            nonlocal n
            if x.get("k") == "Bin" and x.get("op") in ("&", ">>", "<<") and "v" in strip(x["r"]):
                l = txt(x["l"])
                c = strip(x["r"])["v"]
                if ("row_col" in l or l in ("pair", "pairs[i]", "row_col")) and x["op"] in ("&", ">>"):
                    n += 1
                    if (x["op"] == "&" and c != 63) or (x["op"] == ">>" and c != 6):
                        bad.append((fn, x, c))
                if x["op"] == "<<" and l in ("row",) and c != 6:
                    bad.append((fn, x, c))
        walk(fn["body"], v)
    if bad:
        for fn, x, c in bad[:4]:
            out.append(ob("cpc.pair", "%s:pair-codec" % short(fn["patq"]), x["loc"], "violated", "`%s` uses constant %d; pairs are (row << 6) | col with col = pair & 63 and row = pair >> 6" % (txt(x), c), fn["qname"]))
    else:
        out.append(ob("cpc.pair", "cpc:pair-codec", "cpc/include", "discharged", "%d pair decodings all use & 63 / >> 6" % n, ""))
    return out


def window_invariants(facts):
    """first_interesting_column <= window_offset: the `col < first_interesting_column` shortcut in row_col_update discards
    coupons, so every recomputation of first_interesting_column must be clamped to the (new) window offset"""
    fns = functions_by(facts, ["cpc"])
    out = []
    for pat, fn in sorted(fns.items()):
        if fn.get("rect") != "datasketches::cpc_sketch_alloc" or fn["kind"] != "method":
            continue
        st = stmts_of(fn["body"])
        for i, s in enumerate(st):
            e = strip(s.get("e")) if s.get("k") == "Expr" else None
            if not (e and e.get("k") == "Assign" and e.get("op") == "=" and is_this_field(e["l"], ("first_interesting_column",))):
                continue
            key = "cpc_sketch_alloc::%s:first-interesting-column-clamped" % fn["name"]
            off = [txt(x["e"]["r"]) for x in st if x.get("k") == "Expr" and strip(x["e"]).get("k") == "Assign" and is_this_field(strip(x["e"])["l"], ("window_offset",))]
            nxt = st[i + 1] if i + 1 < len(st) else {}
            ok = False
            # the clamp as min(): in the recomputation itself or as the next statement (the normaliser writes `if (x > b) x = b;` so)
            for cand in [e["r"]] + ([strip(nxt["e"])["r"]] if nxt.get("k") == "Expr" and strip(nxt.get("e")).get("k") == "Assign" and strip(nxt["e"]).get("op") == "=" and is_this_field(strip(nxt["e"])["l"], ("first_interesting_column",)) else []):
                m = strip(cand)
                if isinstance(m, dict) and m.get("k") == "Call" and (m.get("callee") or "").startswith("std::min") and len(m.get("args", [])) == 2:
                    at = [txt(a) for a in m["args"]]
                    if (not off and True) or any(a in off for a in at):
                        if cand is e["r"] or "first_interesting_column" in at:
                            ok = True
                            nxt = {"k": "If", "c": {"k": "Bin", "op": ">", "l": e["l"], "r": [a for a in m["args"] if txt(a) != "first_interesting_column"][0]}, "t": None}
            if nxt.get("k") == "If" and not nxt.get("e"):
                c = strip(nxt["c"])
                body = stmts_of(nxt["t"])
                if c.get("k") == "Bin" and c.get("op") == ">" and is_this_field(c["l"], ("first_interesting_column",)) and len(body) == 1:
                    b = strip(body[0].get("e") or {})
                    if b.get("k") == "Assign" and is_this_field(b["l"], ("first_interesting_column",)) and txt(b["r"]) == txt(c["r"]) and (not off or txt(c["r"]) in off):
                        ok = True
            if ok:
                out.append(ob("cpc.window", key, e["loc"], "discharged", "recomputed value is clamped: if (first_interesting_column > %s) first_interesting_column = %s" % (txt(strip(nxt["c"])["r"]), txt(strip(nxt["c"])["r"])), fn["qname"]))
            else:
                out.append(ob("cpc.window", key, e["loc"], "violated", "first_interesting_column is recomputed as `%s` without the clamp to the new window offset: when no surprising value lies in the early zone it lands beyond the window and the `col < first_interesting_column` shortcut then silently drops coupons whose column is inside the window" % txt(e["r"]), fn["qname"]))
    return out


def union_result_merged(facts):
    """cpc_union: every non-empty sketch the union hands out is marked as merged (was_merged = true, i.e. built with has_hip =
    false): the HIP estimator is only valid for a sketch fed by one stream, so an unmarked result reports a history-dependent
    estimate and serializes a HIP accumulator.  Decided per return statement of the get_result* functions."""
    from astu import functions_by, stmts_of, strip_all, strip, txt, short, walk, local_decls
    fns = functions_by(facts, ["cpc"])
    out = []
    n = 0
    for pat, fn in sorted(fns.items()):
        if not (fn.get("rect") == "datasketches::cpc_union_alloc" and fn["name"].startswith("get_result")):
            continue
        decls = local_decls(fn)
        st = stmts_of(fn["body"])
        idx = 0
        rets = []
        walk(fn["body"], lambda x: rets.append(x) if x.get("k") == "Return" else None)
        for r in rets:
            key = "%s:return#%d:marked-merged" % (short(fn["patq"]), idx)
            idx += 1
            n += 1
            e = strip_all(r.get("e") or {})
            while e.get("k") == "Construct" and len(e.get("args", [])) == 1 and strip_all(e["args"][0]).get("k") in ("Ref", "Construct", "Call"):
                e = strip_all(e["args"][0])
            if e.get("k") == "Call" and (e.get("cname") or "").startswith("get_result"):
                out.append(ob("cpc.union-result", key, r["loc"], "discharged", "delegates to %s" % e["cname"], fn["qname"]))
            elif e.get("k") == "Construct" and len(e.get("args", [])) >= 6:
                hh = strip_all(e["args"][5])
                ok = hh.get("k") == "Bool" and not hh.get("b", hh.get("v"))
                out.append(ob("cpc.union-result", key, r["loc"], "discharged" if ok else "violated", "built with has_hip = false" if ok else "result built with has_hip = `%s`: a union result must not carry a HIP estimate" % txt(hh), fn["qname"]))
            elif e.get("k") == "Construct" and len(e.get("args", [])) == 3:
                out.append(ob("cpc.union-result", key, r["loc"], "discharged", "fresh empty sketch", fn["qname"]))
            elif e.get("k") == "Ref" and e.get("dk") == "local" and e.get("d") in decls:
                marks = []
                walk(fn["body"], lambda x: marks.append(x) if x.get("k") == "Assign" and x.get("op") == "=" and strip(x["l"]).get("k") == "Member" and strip(x["l"]).get("f") == "was_merged" and strip_all(strip(x["l"]).get("b") or {}).get("d") == e["d"] and strip_all(x["r"]).get("k") == "Bool" and strip_all(x["r"]).get("b", strip_all(x["r"]).get("v")) else None)
                if marks:
                    out.append(ob("cpc.union-result", key, r["loc"], "discharged", "%s.was_merged = true before the return" % e["n"], fn["qname"]))
                else:
                    out.append(ob("cpc.union-result", key, r["loc"], "violated", "returns the local copy `%s` of the accumulator without `%s.was_merged = true`: when the accumulator was taken over from a single input (no table walk) the result keeps that sketch's HIP estimate" % (e["n"], e["n"]), fn["qname"]))
            else:
                out.append(ob("cpc.union-result", key, r["loc"], "violated", "returns `%s`, a copy of the accumulator that is not marked as merged on this path (the accumulator may be a sketch taken over unchanged from one input: its HIP flag survives)" % txt(e)[:60], fn["qname"]))
    if n < 4:
        out.append(ob("cpc.union-result", "anchor", "", "unrecognised", "only %d return statements of cpc_union get_result* found" % n, ""))
    return out


def flavor_aware_or(facts):
    """cpc_union: the surprising-value table and the window of a sketch mean different things per flavor (in SLIDING mode the early
    zone of the table is inverted), so OR-ing them into the union's bit matrix is only valid after the flavor of THAT sketch was
    determined in the same function (cases B / C of the merge); any other sketch has to be converted with build_bit_matrix()."""
    from astu import functions_by, strip_all, strip, txt, short, walk
    fns = functions_by(facts, ["cpc"])
    out = []
    n = 0
    for pat, fn in sorted(fns.items()):
        if fn.get("rect") != "datasketches::cpc_union_alloc":
            continue
        calls = []
        walk(fn["body"], lambda x: calls.append(x) if x.get("k") == "Call" and x.get("cname") in ("or_table_into_matrix", "or_window_into_matrix") else None)
        if not calls:
            continue
        flav = []
        walk(fn["body"], lambda x: flav.append(x) if x.get("k") == "Call" and x.get("cname") == "determine_flavor" and x.get("obj") is not None else None)
        known = {txt(f["obj"]).lstrip("*") for f in flav}
        for j, c in enumerate(calls):
            n += 1
            a0 = strip_all(c["args"][0]) if c.get("args") else {}
            owner = txt(a0.get("b")) if a0.get("k") == "Member" else "?"
            owner = owner.lstrip("*")
            key = "%s:%s#%d:flavor-known" % (short(fn["patq"]), c["cname"], j)
            if owner in known:
                out.append(ob("cpc.flavor-or", key, c["loc"], "discharged", "flavor of `%s` determined in this function before its table / window is OR-ed into the matrix" % owner, fn["qname"]))
            else:
                out.append(ob("cpc.flavor-or", key, c["loc"], "violated", "%s(%s) in %s: the flavor of `%s` is never determined here - for a SLIDING sketch the table holds inverted early-zone entries and the resulting matrix is wrong; an arbitrary sketch must be converted with build_bit_matrix()" % (c["cname"], txt(a0)[:50], fn["name"], owner), fn["qname"]))
    if n < 3:
        out.append(ob("cpc.flavor-or", "anchor", "", "unrecognised", "only %d or_*_into_matrix calls found" % n, ""))
    return out


def flavor_boundaries(facts):
    """determine_flavor(lg_k, c) partitions the coupon counts at the documented thresholds, compared without rounding:
    EMPTY c == 0; SPARSE 32c < 3k; HYBRID 2c < k; PINNED 8c < 27k; SLIDING otherwise (k = 1 << lg_k).  Every return is reduced to the
    interval its reach conditions describe on that chain of thresholds, so the order in which the chain is tested, ternaries, locals
    and multiplications written as shifts do not matter; a threshold computed with an integer division (3k/32 truncates for k = 16)
    or with another constant is a different partition: the update path (update_sparse / update_windowed use the exact forms)
    and the serializer then disagree about the flavor of the same sketch."""
    import semantics
    from astu import single_assignment_locals
    fns = functions_by(facts, ["cpc"])
    out = []
    # canonical literal text -> (threshold index, "lo": c is at or above it / "hi": c is below it)
    T = {}
    for i, (a, b) in enumerate((("(p1<<5)", "((1<<p0)*3)"), ("(p1<<1)", "(1<<p0)"), ("(p1<<3)", "((1<<p0)*27)"))):
        T[C("(%s<%s)" % (a, b))] = (i + 1, "hi")
        T[C("(%s>=%s)" % (a, b))] = (i + 1, "lo")
    # k is a power of two >= 16: k / 2 and 27k / 8 are exact, so the divided spellings of those two are the same thresholds
    for i, b in ((2, "((1<<p0)>>1)"), (2, "(1<<(p0-1))"), (3, "(((1<<p0)*27)>>3)"), (3, "(((1<<p0)>>3)*27)")):
        T[C("(p1<%s)" % b)] = (i, "hi")
        T[C("(p1>=%s)" % b)] = (i, "lo")
    T[C("(p1==0)")] = (0, "hi")
    T[C("(p1!=0)")] = (0, "lo")
    T[C("(p1>0)")] = (0, "lo")
    want = {"EMPTY": (None, 0), "SPARSE": (0, 1), "HYBRID": (1, 2), "PINNED": (2, 3), "SLIDING": (3, None)}
    for pat, fn in sorted(fns.items()):
        if fn["name"] != "determine_flavor" or len(fn.get("params") or []) != 2:
            continue
        key = "cpc_sketch_alloc::determine_flavor(lg_k,c):boundaries"
        inl = dict(single_assignment_locals(fn))
        for i, pm in enumerate(fn["params"]):
            inl[pm["d"]] = {"k": "Ref", "n": "p%d" % i, "d": None, "dk": "synthetic"}
        cases = semantics.return_cases(fn, inl)
        got, unknown = {}, []
        for conds, val in cases:
            lo, hi = None, None
            for c in conds:
                if c not in T:
                    unknown.append(c)
                    continue
                i, side = T[c]
                if side == "lo":
                    lo = i if lo is None else max(lo, i)
                else:
                    hi = i if hi is None else min(hi, i)
            got.setdefault(val.split("::")[-1], []).append((lo, hi))
        if unknown:
            numeric = all(re.fullmatch(r"[()p01-9<>=!*/+\-]+", u) for u in unknown)
            out.append(ob("cpc.flavor", key, fn["pat"], "violated" if numeric else "unrecognised", "flavor boundary `%s` is not one of the documented exact comparisons (c == 0, 32c < 3k, 2c < k, 8c < 27k): an integer division rounds the threshold for small k (3k/32 is 1 for k = 16), so determine_flavor() and the update path classify the same sketch differently" % unknown[0], fn["qname"]))
            continue
        bad = [(v, iv) for v, ivs in got.items() for iv in ivs if want.get(v) != iv]
        missing = [v for v in want if v not in got]
        if bad or missing:
            out.append(ob("cpc.flavor", key, fn["pat"], "violated", "flavor intervals are %s%s; documented: EMPTY c=0, SPARSE < 3k/32, HYBRID < k/2, PINNED < 27k/8, SLIDING beyond" % (bad, (" (never returned: %s)" % missing) if missing else ""), fn["qname"]))
        else:
            out.append(ob("cpc.flavor", key, fn["pat"], "discharged", "five flavors on the exact thresholds 0 | 3k/32 | k/2 | 27k/8", fn["qname"]))
    return out
