#!/usr/bin/env python3
"""Bit-provenance abstract interpretation of pack_bits_N / unpack_bits_N (theta/include/bit_packing.hpp).

Abstract value: list of 64 bit-symbols (LSB first). A bit-symbol is 0, 1, or ('in', i, j) = bit j of values[i]
(for pack) / ('by', b, j) = bit j of byte b of the packed block (for unpack), or ('?',) unknown.
pack_bits_N: precondition bits >= N of each input are 0.  Result: bytes[0..N-1] as bit-symbol vectors.
unpack_bits_N is then interpreted with byte b bit j := pack result; must yield values[i] bit j == ('in', i, j) for j < N else 0.
"""
import json, sys

Z = 0


def const_bits(v, width=64):
    return [(v >> k) & 1 for k in range(width)]


def shl(a, n):
    return ([Z] * n + a)[:64]


def shr(a, n):
    return (a[n:] + [Z] * n)[:64]


def bor(a, b):
    out = []
    for x, y in zip(a, b):
        if x == Z:
            out.append(y)
        elif y == Z:
            out.append(x)
        elif x == y:
            out.append(x)
        elif x == 1 or y == 1:
            out.append(1)
        else:
            out.append(("?or", x, y))
    return out


def band(a, b):
    out = []
    for x, y in zip(a, b):
        if x == Z or y == Z:
            out.append(Z)
        elif x == 1:
            out.append(y)
        elif y == 1:
            out.append(x)
        elif x == y:
            out.append(x)
        else:
            out.append(("?and", x, y))
    return out


def trunc(a, width):
    return a[:width] + [Z] * (64 - width)


class Interp:
    def __init__(self, fn, mode, nbits, packed=None):
        self.fn = fn
        self.mode = mode
        self.n = nbits
        self.packed = packed  # for unpack: list of byte bit-vectors
        ps = fn["params"]
        self.values_id = ps[0]["d"]
        self.ptr_id = ps[1]["d"]
        self.ptr_off = 0
        self.bytes = {}  # pack output: offset -> bits(8)
        self.vals = {}  # unpack output: index -> bits(64)
        self.unrec = []

    def width_of(self, t):
        return {"unsigned char": 8, "unsigned short": 16, "unsigned int": 32, "int": 32, "unsigned long": 64, "long": 64}.get(t, 64)

    def ev(self, e):
        k = e["k"]
        if "v" in e and k not in ("Assign",):
            return const_bits(e["v"])
        if k == "Int":
            return const_bits(int(e["lit"]))
        if k == "Cast":
            v = self.ev(e["e"])
            w = self.width_of(e["t"])
            if e.get("ck") in ("IntegralCast",) or True:
                return trunc(v, w)
        if k == "Index":
            b = e["b"]
            while b["k"] == "Cast":
                b = b["e"]
            i = e["i"]
            idx = i.get("v")
            if b["k"] == "Ref" and b["d"] == self.values_id and idx is not None:
                if self.mode == "pack":
                    return [("in", idx, j) if j < self.n else Z for j in range(64)]
                return self.vals.get(idx, [("?",)] * 64)
            self.unrec.append("index " + json.dumps(e)[:80])
            return [("?",)] * 64
        if k == "Un":
            op = e["op"]
            if op == "*":
                tgt = e["e"]
                off, post = self.ptr_expr(tgt)
                if self.mode == "pack":
                    v = self.bytes.get(off, [Z] * 8) + [Z] * 56
                else:
                    v = (self.packed[off] if off < len(self.packed) else [("oob", off)] * 8) + [Z] * 56
                return v
            self.unrec.append("unary " + op)
            return [("?",)] * 64
        if k == "Bin":
            op = e["op"]
            l = self.ev(e["l"])
            r = e["r"]
            if op in ("<<", ">>"):
                n = r.get("v")
                if n is None:
                    self.unrec.append("shift by non-constant")
                    return [("?",)] * 64
                # C++ integer promotion: operands of width < int are promoted to int (32 bits); uint64 stays 64
                res = shl(l, n) if op == "<<" else shr(l, n)
                w = self.width_of(e["t"])
                return trunc(res, w)
            rv = self.ev(r)
            if op == "|":
                return bor(l, rv)
            if op == "&":
                return band(l, rv)
            self.unrec.append("binop " + op)
            return [("?",)] * 64
        self.unrec.append("expr kind " + k)
        return [("?",)] * 64

    def ptr_expr(self, e):
        """returns (offset used, whether post-increment happened)"""
        while e["k"] == "Cast":
            e = e["e"]
        if e["k"] == "Ref" and e["d"] == self.ptr_id:
            return self.ptr_off, False
        if e["k"] == "Un" and e["op"] == "++" and e.get("post"):
            off = self.ptr_off
            self.ptr_off += 1
            return off, True
        self.unrec.append("pointer expr " + e["k"])
        return self.ptr_off, False

    def stmt(self, s):
        k = s["k"]
        if k == "Block":
            for c in s["s"]:
                self.stmt(c)
            return
        if k == "Expr":
            e = s["e"]
            if e["k"] == "Assign":
                op = e["op"]
                l = e["l"]
                while l["k"] == "Cast":
                    l = l["e"]
                if l["k"] == "Un" and l["op"] == "*":
                    # *ptr (op)= rhs   /  *ptr++ (op)= rhs
                    rhs = trunc(self.ev(e["r"]), 8)
                    inner = l["e"]
                    while inner["k"] == "Cast":
                        inner = inner["e"]
                    if inner["k"] == "Un" and inner["op"] == "++" and inner.get("post"):
                        off = self.ptr_off
                        self.ptr_off += 1
                    elif inner["k"] == "Ref" and inner["d"] == self.ptr_id:
                        off = self.ptr_off
                    else:
                        self.unrec.append("store target")
                        return
                    old = self.bytes.get(off, [Z] * 8) + [Z] * 56
                    new = rhs if op == "=" else (bor(old, rhs) if op == "|=" else None)
                    if new is None:
                        self.unrec.append("store op " + op)
                        return
                    self.bytes[off] = new[:8]
                    return
                if l["k"] == "Index":
                    b = l["b"]
                    while b["k"] == "Cast":
                        b = b["e"]
                    idx = l["i"].get("v")
                    if b["k"] == "Ref" and b["d"] == self.values_id and idx is not None:
                        rhs = self.ev(e["r"])
                        old = self.vals.get(idx, [Z] * 64)
                        if op == "=":
                            new = rhs
                        elif op == "|=":
                            new = bor(old, rhs)
                        elif op == "<<=":
                            n = e["r"].get("v")
                            new = shl(old, n)
                        elif op == "&=":
                            new = band(old, rhs)
                        else:
                            self.unrec.append("value op " + op)
                            return
                        self.vals[idx] = new
                        return
                self.unrec.append("assign target " + l["k"])
                return
            if e["k"] == "Un" and e["op"] == "++":
                t = e["e"]
                while t["k"] == "Cast":
                    t = t["e"]
                if t["k"] == "Ref" and t["d"] == self.ptr_id:
                    self.ptr_off += 1
                    return
            self.unrec.append("expr stmt " + e["k"])
            return
        self.unrec.append("stmt " + k)


def obligations(facts):
    """One obligation per N in 1..63 (pack_bits_N / unpack_bits_N invert each other exactly) + 2 dispatch switches."""
    from vlib.core import ob
    d = facts.load("bitpack")
    fns = {f["name"]: f for f in d["functions"]}
    out = []
    for n in range(1, 64):
        pf, uf = fns.get("pack_bits_%d" % n), fns.get("unpack_bits_%d" % n)
        key = "bit_packing:pair_%d" % n
        if not pf or not uf:
            continue
        site = pf["pat"]
        P = Interp(pf, "pack", n)
        P.stmt(pf["body"])
        nbytes = len(P.bytes)
        packed = [P.bytes.get(i, [Z] * 8) for i in range(max(nbytes, n))]
        U = Interp(uf, "unpack", n, packed)
        U.stmt(uf["body"])
        if P.unrec or U.unrec:
            out.append(ob("bitprov", key, site, "unrecognised", "operation outside the shift/or/and/cast fragment: %s %s" % (P.unrec[:2], U.unrec[:2]), pf["qname"]))
            continue
        problems = []
        if nbytes != n or sorted(P.bytes) != list(range(n)):
            problems.append("pack_bits_%d writes %d bytes (offsets %s..), expected exactly %d" % (n, nbytes, sorted(P.bytes)[:3], n))
        seen = {}
        for b, bits in enumerate(packed):
            for j, s in enumerate(bits):
                if isinstance(s, tuple) and s[0] == "in":
                    seen.setdefault(s, []).append((b, j))
                elif s not in (Z,):
                    problems.append("packed byte %d bit %d = %r (not a single input bit)" % (b, j, s))
        for i in range(8):
            for j in range(n):
                c = len(seen.get(("in", i, j), []))
                if c != 1:
                    problems.append("pack_bits_%d: input %d bit %d stored %d times" % (n, i, j, c))
        for i in range(8):
            v = U.vals.get(i)
            if v is None:
                problems.append("unpack_bits_%d does not write values[%d]" % (n, i))
                continue
            for j in range(64):
                want = ("in", i, j) if j < n else Z
                if v[j] != want:
                    problems.append("unpack_bits_%d(pack_bits_%d(x)): values[%d] bit %d = %r, want %r" % (n, n, i, j, v[j], want))
                    break
        if problems:
            out.append(ob("bitprov", key, site, "violated", "; ".join(problems[:4]), pf["qname"]))
        else:
            out.append(ob("bitprov", key, site, "discharged", "all %d input bits stored exactly once in %d bytes; unpack(pack(x)) = x bit for bit" % (8 * n, n), pf["qname"]))
    for disp in ("pack_bits_block8", "unpack_bits_block8"):
        f = fns.get(disp)
        if not f:
            continue
        arms = {}

        def visit(n):
            if isinstance(n, dict):
                if n.get("k") == "Case":
                    s = n["s"]
                    call = s["e"] if s.get("k") == "Expr" else None
                    arms[n["v"].get("v")] = call.get("cname") if call else None
                for v in n.values():
                    visit(v)
            elif isinstance(n, list):
                for v in n:
                    visit(v)
        visit(f["body"])
        pref = disp.replace("_block8", "_")
        wrong = {k: v for k, v in arms.items() if v != pref + str(k)}
        missing = [k for k in range(1, 64) if k not in arms]
        if wrong or missing:
            out.append(ob("bitprov", "bit_packing:dispatch:" + disp, f["pat"], "violated", "misrouted arms %s missing arms %s" % (wrong, missing), f["qname"]))
        else:
            out.append(ob("bitprov", "bit_packing:dispatch:" + disp, f["pat"], "discharged", "63 arms, case N -> %sN" % pref, f["qname"]))
    return out
