"""C14 count-min: one cell-addressing function shared by update and queries, index shape, min reduction, bounds,
merge guards and linearity, configuration guard not defeated by 32-bit wrap-around."""
from astu import C, ctxt, gt_pair, eq_const, reach, reach_txt, ctext, strip, strip_all, walk, walkp, txt, short, is_this_field, field_name, stmts_of, always_throws, functions_by, local_decls
from vlib.core import ob

REC = "datasketches::count_min_sketch"


def cm(facts):
    fns = functions_by(facts, ["count"])
    return {p: f for p, f in fns.items() if f.get("rect") == REC}


def returns_of(fn):
    r = []
    walk(fn["body"], lambda n: r.append(n) if n.get("k") == "Return" and n.get("e") is not None else None)
    return r


def addressing(facts):
    fs = cm(facts)
    out = []
    for pat, fn in sorted(fs.items()):
        if fn["name"] == "get_hashes":
            key = "count_min_sketch::get_hashes:index-shape"
            inl = {d: v["init"] for d, v in local_decls(fn).items() if v.get("init") is not None and v.get("const")}
            loops = []
            walk(fn["body"], lambda n: loops.append(n) if n.get("k") == "RangeFor" else None)
            problems = []
            if not loops or txt(loops[0]["range"]) != "hash_seeds":
                problems.append("no loop over hash_seeds")
            else:
                body = stmts_of(loops[0]["b"])
                texts = [txt(s.get("e")).replace(" ", "") if s.get("k") == "Expr" else ";".join("%s=%s" % (v["n"], txt(v.get("init"))) for v in s.get("vars", [])) for s in body]
                joined = " ; ".join(texts)
                if not any(t == "(bucket_index=(hash%_num_buckets))" for t in texts):
                    problems.append("bucket index is not `hash %% _num_buckets` (%s)" % [t for t in texts if "bucket_index=" in t])
                if not any("push_back(((hash_seed_index*_num_buckets)+bucket_index))" in t for t in texts):
                    problems.append("cell index is not row * _num_buckets + bucket_index")
                if not any(t in ("(hash_seed_index+=1)", "++hash_seed_index", "hash_seed_index++") for t in texts):
                    problems.append("row counter is not advanced once per hash seed")
                if not any("MurmurHash3_x64_128(item,size,it," in t for t in texts):
                    problems.append("hash is not MurmurHash3_x64_128(item, size, <row seed>, ..)")
                jumps = []
                walk(loops[0]["b"], lambda n: jumps.append(n["k"]) if n.get("k") in ("If", "Continue", "Break") else None)
                if jumps:
                    problems.append("conditional control flow inside the row loop (%s)" % jumps)
            if problems:
                out.append(ob("cm.index", key, fn["pat"], "violated", "; ".join(problems) + ": with a non-power-of-two bucket count a mask is not a modulo, and rows must not share cells", fn["qname"]))
            else:
                out.append(ob("cm.index", key, fn["pat"], "discharged", "for each row seed: cell = row * num_buckets + (murmur(item, seed).h1 % num_buckets)", fn["qname"]))
        # update and estimate derive cells through get_hashes(item, size)
        if fn["name"] in ("update", "get_estimate") and fn["params"] and fn["params"][0]["t"].startswith("const void"):
            calls = []
            walk(fn["body"], lambda n: calls.append(n) if n.get("k") == "Call" and n.get("cname") == "get_hashes" else None)
            key = "count_min_sketch::%s(void*):cells-from-get_hashes" % fn["name"]
            if len(calls) == 1 and [txt(a) for a in calls[0]["args"]] == ["item", "size"]:
                out.append(ob("cm.index", key, fn["pat"], "discharged", "cells come from get_hashes(item, size)", fn["qname"]))
            else:
                out.append(ob("cm.index", key, fn["pat"], "violated", "does not derive its cells from exactly one get_hashes(item, size) call", fn["qname"]))
            loops = []
            walk(fn["body"], lambda n: loops.append(n) if n.get("k") == "RangeFor" else None)
            if fn["name"] == "update":
                key = "count_min_sketch::update(void*):adds-weight-once"
                body = [txt(s.get("e")).replace(" ", "") for s in stmts_of(loops[0]["b"])] if loops else []
                tot = [txt(s.get("e")).replace(" ", "") for s in stmts_of(fn["body"]) if s.get("k") == "Expr"]
                # every write to a cell anywhere in update is an unconditional `+= weight` (linearity: merge adds cells, so update must too)
                writes = []
                walkp(fn["body"], lambda n, ps: writes.append((n, [p.get("k") for p in ps])) if n.get("k") == "Assign" and "_sketch_array" in txt(n["l"]) else None)
                lin = all(n.get("op") == "+=" and txt(n["r"]) == "weight" and not any(k in ("If", "Cond", "While", "Do", "Switch") for k in ks) for n, ks in writes)
                ok = body == ["(_sketch_array[h]+=weight)"] and len(loops) == 1 and len(writes) == 1 and lin and any(t.startswith("(_total_weight+=(" + C("(weight>=0)") + "?weight:-weight))") for t in tot)
                if not lin:
                    body = ["cell written by %s under %s" % (txt(n), [k for k in ks if k in ("If", "Cond", "While", "Do", "Switch")]) for n, ks in writes]
                out.append(ob("cm.update", key, fn["pat"], "discharged" if ok else "violated", "each addressed cell += weight exactly once; total += |weight|" if ok else "update body is %s / %s: every addressed cell must receive `+= weight` exactly once and the total `+= |weight|`" % (body, tot), fn["qname"]))
            else:
                key = "count_min_sketch::get_estimate(void*):min-over-rows"
                rets = [txt(r["e"]) for r in returns_of(fn)]
                ok = len(rets) == 1 and "min_element(" in rets[0] and loops and [txt(s.get("e")).replace(" ", "") for s in stmts_of(loops[0]["b"])] == ["estimates.push_back(_sketch_array[h])"]
                out.append(ob("cm.estimate", key, fn["pat"], "discharged" if ok else "violated", "estimate = min over the addressed cells" if ok else "estimate is `%s`: it must be the minimum over all addressed cells (never under-estimates only with min)" % rets, fn["qname"]))
        if fn["name"] == "get_lower_bound" and fn["params"] and fn["params"][0]["t"].startswith("const void"):
            rets = [txt(r["e"]) for r in returns_of(fn)]
            ok = rets == ["get_estimate(item,size)"]
            out.append(ob("cm.bounds", "count_min_sketch::get_lower_bound(void*):formula", fn["pat"], "discharged" if ok else "violated", "lower bound = estimate" if ok else "lower bound is %s" % rets, fn["qname"]))
        if fn["name"] == "get_upper_bound" and fn["params"] and fn["params"][0]["t"].startswith("const void"):
            rets = [txt(r["e"]).replace(" ", "") for r in returns_of(fn)]
            ok = rets == ["(get_estimate(item,size)+(get_relative_error()*get_total_weight()))"]
            out.append(ob("cm.bounds", "count_min_sketch::get_upper_bound(void*):formula", fn["pat"], "discharged" if ok else "violated", "upper bound = estimate + relative_error * total_weight" if ok else "upper bound is %s" % rets, fn["qname"]))
    return out


def overload_siblings(facts):
    """typed overloads of update / get_estimate / get_lower_bound / get_upper_bound hand the same bytes to the (void*, size) core"""
    fs = cm(facts)
    out = []
    fam = {}
    for pat, fn in fs.items():
        if fn["name"] in ("update", "get_estimate", "get_lower_bound", "get_upper_bound") and fn["params"] and not fn["params"][0]["t"].startswith("const void"):
            fam.setdefault(fn["params"][0]["t"], {})[fn["name"]] = fn

    def core_args(fn):
        calls = []
        walk(fn["body"], lambda n: calls.append(n) if n.get("k") == "Call" and n.get("cname") == fn["name"] and len(n.get("args", [])) >= 2 else None)
        if not calls:
            return None
        guards = []
        walk(fn["body"], lambda n: guards.append(txt(n["c"])) if n.get("k") == "If" else None)
        return ([txt(a) for a in calls[0]["args"][:2]], guards)
    for t, d in sorted(fam.items()):
        ref = core_args(d["update"]) if "update" in d else None
        for name, fn in sorted(d.items()):
            key = "count_min_sketch::%s(%s):bytes" % (name, t)
            got = core_args(fn)
            wrong = []
            if got is None:
                walk(fn["body"], lambda n: wrong.append(n) if n.get("k") == "Call" and n.get("cname") in ("update", "get_estimate", "get_lower_bound", "get_upper_bound") and n.get("cname") != fn["name"] and (n.get("crec") or "").endswith("count_min_sketch") else None)
            if wrong:
                out.append(ob("cm.siblings", key, wrong[0]["loc"], "violated", "%s(%s) forwards to %s(...) instead of %s(const void*, size): wrong peer (e.g. the lower bound answered with the upper bound breaks lower <= estimate <= upper)" % (name, t, wrong[0]["cname"], name), fn["qname"]))
            elif got is None or ref is None:
                out.append(ob("cm.siblings", key, fn["pat"], "unrecognised", "no delegation to the (void*, size) overload found", fn["qname"]))
            elif got == ref:
                out.append(ob("cm.siblings", key, fn["pat"], "discharged", "hands (%s) to the core overload, like update" % ", ".join(got[0]), fn["qname"]))
            else:
                out.append(ob("cm.siblings", key, fn["pat"], "violated", "%s(%s) passes %s guarded by %s, update passes %s guarded by %s: the query addresses different cells than the update" % (name, t, got[0], got[1], ref[0], ref[1]), fn["qname"]))
    return out


def merge_rules(facts):
    fs = cm(facts)
    out = []
    for pat, fn in sorted(fs.items()):
        if fn["name"] != "merge":
            continue
        st = stmts_of(fn["body"])
        inl = {d: v["init"] for d, v in local_decls(fn).items() if v.get("init") is not None}
        self_at, cfg_at, loop_at = None, None, None
        cfg_txt = ""
        for i, s in enumerate(st):
            if s.get("k") == "If" and always_throws(s.get("t")):
                c = txt(s["c"], inl).replace(" ", "")
                if "this" in c and "&other_sketch" in c and "==" in c and self_at is None:
                    self_at = i
                elif cfg_at is None:
                    cfg_at = i
                    cfg_txt = c
            if s.get("k") in ("While", "For", "RangeFor") and loop_at is None:
                loop_at = i
        key = "count_min_sketch::merge:self-merge-refused"
        ok = self_at is not None and (loop_at is None or self_at < loop_at)
        out.append(ob("cm.merge", key, fn["pat"], "discharged" if ok else "violated", "`if (this == &other) throw` precedes the merge loop" if ok else "self merge is not refused before cells are added", fn["qname"]))
        key = "count_min_sketch::merge:configuration-check"
        need = {"number of hashes": "(get_num_hashes()==other_sketch.get_num_hashes())", "number of buckets": "(get_num_buckets()==other_sketch.get_num_buckets())", "seed (full 64 bits)": "(get_seed()==other_sketch.get_seed())"}
        missing = [k for k, v in need.items() if v not in cfg_txt]
        if cfg_at is not None and not missing and "||" not in cfg_txt and (loop_at is None or cfg_at < loop_at):
            out.append(ob("cm.merge", key, fn["pat"], "discharged", "hashes, buckets and the full seed are compared; a mismatch throws before cells are added", fn["qname"]))
        else:
            out.append(ob("cm.merge", key, fn["pat"], "violated", "the configuration check `%s` does not compare %s directly: sketches that address cells differently (e.g. different seeds with the same 16-bit seed hash) would be summed" % (cfg_txt[:160], missing or "all three"), fn["qname"]))
        key = "count_min_sketch::merge:cellwise-sum"
        body = [txt(s.get("e")).replace(" ", "") for s in stmts_of(st[loop_at]["b"])] if loop_at is not None else []
        tot = any(txt(s.get("e")).replace(" ", "") == "(_total_weight+=other_sketch.get_total_weight())" for s in st if s.get("k") == "Expr")
        ok = loop_at is not None and "(*it+=*other_it)" in body and "++it" in body and "++other_it" in body and txt(st[loop_at].get("c")).replace(" ", "") == "(it!=_sketch_array.end())" and tot
        out.append(ob("cm.merge", key, fn["pat"], "discharged" if ok else "violated", "every cell += the other sketch's cell; totals added" if ok else "merge loop is %s with total update %s: every cell must receive the other's cell exactly once and the totals must be added" % (body, tot), fn["qname"]))
        # linearity on every path: no early return past the checks (it would skip the cell sum or the total), and no write to the
        # cells other than the additive one (copying the other table replaces what was accumulated)
        rets = []
        walk(fn["body"], lambda n: rets.append(n) if n.get("k") == "Return" else None)
        copies = []
        walk(fn["body"], lambda n: copies.append(n) if n.get("k") == "Call" and n.get("cname") in ("copy", "copy_n", "fill", "assign", "swap") and "_sketch_array" in txt(n) else None)
        assigns = []
        walk(fn["body"], lambda n: assigns.append(n) if n.get("k") == "Assign" and n.get("op") == "=" and ("_sketch_array" in txt(n["l"]) or txt(n["l"]).startswith("*it")) else None)
        key = "count_min_sketch::merge:single-additive-path"
        if rets or copies or assigns:
            what = ("an early `return` at %s" % rets[0]["loc"].split("/")[-1]) if rets else ("`%s`" % txt((copies or assigns)[0])[:70])
            out.append(ob("cm.merge", key, (rets or copies or assigns)[0]["loc"], "violated", "merge contains %s: a path that leaves merge without adding the totals, or that overwrites cells instead of adding to them, breaks linearity (merging into a fresh accumulator must equal one sketch fed both streams; a stale total weight of 0 also keeps is_empty() true)" % what, fn["qname"]))
        else:
            out.append(ob("cm.merge", key, fn["pat"], "discharged", "one path after the checks: additive cell loop, then totals; no early return, no overwriting of cells", fn["qname"]))
    return out


def config_guard(facts):
    """the constructor's size limit must be evaluated without 32-bit wrap-around"""
    fs = cm(facts)
    out = []
    for pat, fn in sorted(fs.items()):
        if fn["kind"] != "ctor" or fn.get("special") or len(fn["params"]) < 2:
            continue
        idx = [0]

        def v(n):
            if n.get("k") == "Bin" and n.get("op") in ("<", ">=", ">", "<=") and n.get("t") == "bool":
                for side, other in (("l", "r"), ("r", "l")):
                    m = strip(n[side])
                    c = strip(n[other])
                    if m.get("k") == "Bin" and m.get("op") == "*" and "v" in c and c["v"] >= (1 << 16):
                        key = "count_min_sketch::count_min_sketch:size-limit#%d" % idx[0]
                        idx[0] += 1
                        if m.get("sz", 8) < 8:
                            out.append(ob("cm.config", key, n["loc"], "violated", "`%s` is evaluated in %d-bit arithmetic: e.g. 255 hashes x 16843010 buckets wraps to a small product, passes the limit and allocates a tiny array that updates then overrun" % (txt(n), m.get("sz", 4) * 8), fn["qname"]))
                        else:
                            out.append(ob("cm.config", key, n["loc"], "discharged", "size limit `%s` evaluated in 64 bits" % txt(n), fn["qname"]))
        walk(fn["body"], v)
        walk(fn.get("inits", []), v)
    return out
