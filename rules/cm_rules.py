"""C14 count-min: one cell-addressing function shared by update and queries, index shape, min reduction, bounds,
merge guards and linearity, configuration guard not defeated by 32-bit wrap-around."""
from astu import C, ctxt, gt_pair, eq_const, reach, reach_txt, ctext, strip, strip_all, walk, walkp, txt, short, is_this_field, field_name, stmts_of, always_throws, functions_by, local_decls
from vlib.core import ob

REC = "datasketches::count_min_sketch"


def cm(facts):
    fns = functions_by(facts, ["count"])
    return {p: f for p, f in fns.items() if f.get("rect") == REC}


def returns_of(fn):
    r = []
    walk(fn["body"], lambda n: r.append(n) if n.get("k") == "Return" and n.get("e") is not None else None)
    return r


def _loops(n):
    out = []
    walk(n, lambda x: out.append(x) if x.get("k") in ("RangeFor", "For", "While", "Do") else None)
    return out


def _ref_d(e):
    e = strip_all(e) if isinstance(e, dict) else e
    return e.get("d") if isinstance(e, dict) and e.get("k") == "Ref" else None


def _cell_index(e):
    """index node of `_sketch_array[idx]`, else None"""
    e = strip(e)
    if isinstance(e, dict) and e.get("k") == "Index" and txt(e.get("b")) == "_sketch_array":
        return e.get("i")
    if isinstance(e, dict) and e.get("k") == "OpCall" and e.get("op") == "[]" and len(e.get("args", [])) == 2 and txt(e["args"][0]) == "_sketch_array":
        return e["args"][1]
    return None


def addressing(facts):
    """decided on declarations and data flow, not on the names of locals: which loop ranges over the row seeds / over the cells
    returned by get_hashes, which local counts rows, which local receives the hash"""
    from astu import single_assignment_locals
    from triggers import plainly_assigned_locals
    fs = cm(facts)
    out = []
    # the row-seed vector is the member the constructor fills element by element (push_back inside its loop), whatever its name
    SEEDS = "hash_seeds"
    for f0 in fs.values():
        if f0.get("kind") == "ctor" and f0.get("body") is not None and not f0.get("special"):
            for L0 in _loops(f0["body"]):
                pb = []
                walk(L0.get("b"), lambda n: pb.append(n) if n.get("k") == "Call" and n.get("cname") in ("push_back", "emplace_back") and n.get("obj") is not None else None)
                for c0 in pb:
                    o0 = strip_all(c0["obj"])
                    if o0.get("k") == "Member" and strip_all(o0.get("b") or {}).get("k") == "This" and o0.get("f") != "_sketch_array":
                        SEEDS = o0["f"]
    for pat, fn in sorted(fs.items()):
        if fn["name"] == "get_hashes":
            key = "count_min_sketch::get_hashes:index-shape"
            pa = {d: v[0] for d, v in plainly_assigned_locals(fn).items() if len(v) == 1}
            sa_h = single_assignment_locals(fn)
            loops = [l for l in _loops(fn["body"]) if l.get("k") == "RangeFor" and txt(l.get("range")) == SEEDS]
            # the same iteration written with an index that also serves as the row number: for (i = 0; i < hash_seeds.size(); ++i)
            idx_loops = [l for l in _loops(fn["body"]) if l.get("k") == "For" and l.get("c") is not None and (SEEDS + ".size()") in txt(l["c"], sa_h)
                         and isinstance(l.get("init"), dict) and l["init"].get("k") == "Decl" and strip_all(l["init"]["vars"][0].get("init") or {}).get("v") == 0]
            problems = []
            IDX = None
            if not loops and idx_loops:
                loops = idx_loops
                IDX = idx_loops[0]["init"]["vars"][0]["d"]
            if not loops:
                problems.append("no loop over hash_seeds")
            else:
                L = loops[0]
                E = (L.get("var") or {}).get("d")
                pushes, murmurs, steps = [], [], []
                walk(L["b"], lambda n: pushes.append(n) if n.get("k") == "Call" and n.get("cname") in ("push_back", "emplace_back") else None)
                walk(L["b"], lambda n: murmurs.append(n) if n.get("k") == "Call" and n.get("cname") == "MurmurHash3_x64_128" else None)
                walk(L["b"], lambda n: steps.append(_ref_d(n["e"])) if n.get("k") == "Un" and n.get("op") in ("++", "--") else None)
                hs = None
                def is_seed(a):
                    if IDX is None:
                        return _ref_d(a) == E
                    a = strip_all(a)
                    i = a.get("i") if a.get("k") == "Index" else (a["args"][1] if a.get("k") == "OpCall" and a.get("op") == "[]" and len(a.get("args", [])) == 2 else None)
                    b = a.get("b") if a.get("k") == "Index" else (a["args"][0] if a.get("k") == "OpCall" and a.get("args") else None)
                    return i is not None and _ref_d(i) == IDX and txt(b) == SEEDS
                if len(murmurs) != 1 or len(murmurs[0].get("args", [])) != 4 or [_ref_d(a) for a in murmurs[0]["args"][:2]] != [fn["params"][0]["d"], fn["params"][1]["d"]] or not is_seed(murmurs[0]["args"][2]):
                    problems.append("hash is not MurmurHash3_x64_128(item, size, <row seed>, ..)")
                else:
                    hs = _ref_d(murmurs[0]["args"][3])
                if len(pushes) != 1 or len(pushes[0].get("args", [])) != 1:
                    problems.append("not exactly one cell index is produced per row")
                else:
                    v = strip_all(pushes[0]["args"][0])
                    ok_shape = False
                    row = None
                    if v.get("k") == "Bin" and v.get("op") == "+":
                        for m, o in ((v["l"], v["r"]), (v["r"], v["l"])):
                            m, o = strip_all(m), strip_all(o)
                            while o.get("k") == "Ref" and o.get("d") in pa:
                                o = strip_all(pa[o["d"]])
                            if m.get("k") == "Bin" and m.get("op") == "*" and "_num_buckets" in (txt(m["l"]), txt(m["r"])):
                                r = m["l"] if txt(m["r"]) == "_num_buckets" else m["r"]
                                row = _ref_d(r)
                                if o.get("k") == "Bin" and o.get("op") == "%" and txt(o["r"]) == "_num_buckets":
                                    h = strip_all(o["l"])
                                    while h.get("k") == "Ref" and h.get("d") in pa:
                                        h = strip_all(pa[h["d"]])
                                    if h.get("k") == "Member" and h.get("f") == "h1" and _ref_d(h.get("b")) == hs and hs is not None:
                                        ok_shape = True
                                    else:
                                        problems.append("bucket index is not `hash.h1 %% _num_buckets` of this row's hash (%s)" % txt(o))
                                else:
                                    problems.append("bucket index is not `hash %% _num_buckets` (%s)" % txt(o))
                    if row is None:
                        problems.append("cell index is not row * _num_buckets + bucket_index (%s)" % txt(v))
                    elif IDX is not None:
                        if row != IDX or steps:
                            problems.append("the row number is not the loop index over hash_seeds")
                    elif steps.count(row) != 1 or any(x != row for x in steps):
                        problems.append("row counter is not advanced exactly once per hash seed")
                jumps = []
                walk(L["b"], lambda n: jumps.append(n["k"]) if n.get("k") in ("If", "Continue", "Break") else None)
                if jumps:
                    problems.append("conditional control flow inside the row loop (%s)" % jumps)
            if problems:
                out.append(ob("cm.index", key, fn["pat"], "violated", "; ".join(problems) + ": with a non-power-of-two bucket count a mask is not a modulo, and rows must not share cells", fn["qname"]))
            else:
                out.append(ob("cm.index", key, fn["pat"], "discharged", "for each row seed: cell = row * num_buckets + (murmur(item, seed).h1 % num_buckets)", fn["qname"]))
        # update and estimate derive cells through get_hashes(item, size)
        if fn["name"] in ("update", "get_estimate") and fn["params"] and fn["params"][0]["t"].startswith("const void"):
            calls = []
            walk(fn["body"], lambda n: calls.append(n) if n.get("k") == "Call" and n.get("cname") == "get_hashes" else None)
            key = "count_min_sketch::%s(void*):cells-from-get_hashes" % fn["name"]
            if len(calls) == 1 and [_ref_d(a) for a in calls[0]["args"]] == [fn["params"][0]["d"], fn["params"][1]["d"]]:
                out.append(ob("cm.index", key, fn["pat"], "discharged", "cells come from get_hashes(item, size)", fn["qname"]))
            else:
                out.append(ob("cm.index", key, fn["pat"], "violated", "does not derive its cells from exactly one get_hashes(item, size) call", fn["qname"]))
            sa = single_assignment_locals(fn)
            # loops over the cells: range-for (or an index / iterator loop the normaliser writes as one) over the local holding get_hashes(..)
            cell_loops = []
            for L in _loops(fn["body"]):
                if L.get("k") == "RangeFor":
                    r = strip_all(L.get("range") or {})
                    src = strip_all(sa.get(r.get("d"))) if r.get("k") == "Ref" and r.get("d") in sa else r
                    while isinstance(src, dict) and src.get("k") == "Construct" and len(src.get("args", [])) == 1:
                        src = strip_all(src["args"][0])
                    if isinstance(src, dict) and src.get("k") == "Call" and src.get("cname") == "get_hashes":
                        cell_loops.append(L)
            if fn["name"] == "update":
                key = "count_min_sketch::update(void*):adds-weight-once"
                wd = fn["params"][2]["d"] if len(fn["params"]) > 2 else None
                writes = []
                walkp(fn["body"], lambda n, ps: writes.append((n, ps)) if n.get("k") == "Assign" and _cell_index(n["l"]) is not None else None)
                probs = []
                if len(cell_loops) != 1:
                    probs.append("%d loops over the cells of get_hashes" % len(cell_loops))
                if len(writes) != 1:
                    probs.append("%d writes to cells" % len(writes))
                for n, ps in writes:
                    E = (cell_loops[0].get("var") or {}).get("d") if cell_loops else None
                    cond = [p.get("k") for p in ps if p.get("k") in ("If", "Cond", "Switch")]
                    inner = [p for p in ps if p.get("k") in ("RangeFor", "For", "While", "Do")]
                    if n.get("op") != "+=" or _ref_d(n["r"]) != wd or _ref_d(_cell_index(n["l"])) != E or cond or inner != cell_loops[:1]:
                        probs.append("cell written by `%s`%s" % (txt(n), (" under %s" % cond) if cond else ""))
                # total weight += |weight| once, unconditionally, at the top level
                tots = []
                for st in stmts_of(fn["body"]):
                    e = strip(st.get("e")) if st.get("k") == "Expr" else None
                    if isinstance(e, dict) and e.get("k") == "Assign" and is_this_field(e["l"], ("_total_weight",)):
                        tots.append(e)
                tot_ok = False
                if len(tots) == 1 and tots[0].get("op") == "+=":
                    r = strip_all(tots[0]["r"])
                    if r.get("k") == "Call" and r.get("cname") in ("abs", "fabs") and len(r.get("args", [])) == 1 and _ref_d(r["args"][0]) == wd:
                        tot_ok = True
                    if r.get("k") == "Cond":
                        gp = gt_pair(r["c"])
                        a, b = strip_all(r["a"]), strip_all(r["e"])
                        neg = lambda x: x.get("k") == "Un" and x.get("op") == "-" and _ref_d(x.get("e")) == wd
                        if gp and _ref_d(gp[0]) == wd and strip_all(gp[1]).get("v") == 0 and _ref_d(a) == wd and neg(b):
                            tot_ok = True    # weight >= 0 (or > 0) ? weight : -weight
                        if gp and _ref_d(gp[1]) == wd and strip_all(gp[0]).get("v") == 0 and neg(a) and _ref_d(b) == wd:
                            tot_ok = True    # weight < 0 (or <= 0) ? -weight : weight
                if not tot_ok:
                    probs.append("total weight update is %s" % [txt(t) for t in tots])
                ok = not probs
                out.append(ob("cm.update", key, fn["pat"], "discharged" if ok else "violated", "each addressed cell += weight exactly once; total += |weight|" if ok else "update: %s: every addressed cell must receive `+= weight` exactly once and the total `+= |weight|`" % "; ".join(probs), fn["qname"]))
            else:
                key = "count_min_sketch::get_estimate(void*):min-over-rows"
                rets = returns_of(fn)
                ok = False
                why = [txt(r["e"]) for r in rets]
                if len(rets) == 1 and len(cell_loops) == 1:
                    r = strip_all(rets[0]["e"])
                    inner = strip_all(r.get("e") or (r.get("args") or [{}])[0]) if r.get("k") in ("Un", "OpCall") and r.get("op") == "*" else {}
                    V = V2 = None
                    if inner.get("k") == "Call" and inner.get("cname") == "min_element" and len(inner.get("args", [])) == 2:
                        b0, e0 = strip_all(inner["args"][0]), strip_all(inner["args"][1])
                        V = _ref_d(b0.get("obj") or {}) if b0.get("k") == "Call" and b0.get("cname") == "begin" else None
                        V2 = _ref_d(e0.get("obj") or {}) if e0.get("k") == "Call" and e0.get("cname") == "end" else None
                    elif inner.get("k") == "Ref":
                        V = V2 = _argmin_of(fn, inner.get("d"))     # a hand-written std::min_element
                    if V is not None:
                        E = (cell_loops[0].get("var") or {}).get("d")
                        body = stmts_of(cell_loops[0]["b"])
                        if V is not None and V == V2 and len(body) == 1 and body[0].get("k") == "Expr":
                            c = strip_all(body[0]["e"])
                            if c.get("k") == "Call" and c.get("cname") in ("push_back", "emplace_back") and _ref_d(c.get("obj") or {}) == V and len(c.get("args", [])) == 1 and _ref_d(_cell_index(strip_all(c["args"][0])) or {}) == E:
                                ok = True
                out.append(ob("cm.estimate", key, fn["pat"], "discharged" if ok else "violated", "estimate = min over the addressed cells" if ok else "estimate is `%s`: it must be the minimum over all addressed cells (never under-estimates only with min)" % why, fn["qname"]))
        if fn["name"] == "get_lower_bound" and fn["params"] and fn["params"][0]["t"].startswith("const void"):
            rets = [txt(r["e"]) for r in returns_of(fn)]
            ok = rets == ["get_estimate(item,size)"]
            out.append(ob("cm.bounds", "count_min_sketch::get_lower_bound(void*):formula", fn["pat"], "discharged" if ok else "violated", "lower bound = estimate" if ok else "lower bound is %s" % rets, fn["qname"]))
        if fn["name"] == "get_upper_bound" and fn["params"] and fn["params"][0]["t"].startswith("const void"):
            rets = [txt(r["e"]).replace(" ", "") for r in returns_of(fn)]
            ok = rets == ["(get_estimate(item,size)+(get_relative_error()*get_total_weight()))"]
            out.append(ob("cm.bounds", "count_min_sketch::get_upper_bound(void*):formula", fn["pat"], "discharged" if ok else "violated", "upper bound = estimate + relative_error * total_weight" if ok else "upper bound is %s" % rets, fn["qname"]))
    return out


def _unwrap(x):
    x = strip_all(x or {})
    while isinstance(x, dict) and x.get("k") == "Construct" and len(x.get("args", [])) == 1:
        x = strip_all(x["args"][0])
    return x if isinstance(x, dict) else {}


def _argmin_of(fn, d):
    """the container V when local iterator `d` is V.begin() updated only by `if (*it < *d) d = it` inside a loop of `it` over the
    whole of V (what std::min_element(V.begin(), V.end()) does), else None"""
    from astu import reach_tagged
    init, writes = [], []

    def v(n, ps):
        k = n.get("k")
        if k == "Decl":
            for x in n.get("vars", []):
                if x.get("d") == d:
                    init.append(_unwrap(x.get("init")))
        elif k == "Assign" and _ref_d(n.get("l")) == d:
            writes.append((n, ps, n.get("op"), n.get("r")))
        elif k == "OpCall" and n.get("op") in ("=", "+=", "-=", "++", "--") and n.get("args") and _ref_d(n["args"][0]) == d:
            writes.append((n, ps, n["op"], n["args"][1] if len(n["args"]) > 1 else None))
        elif k == "Un" and n.get("op") in ("++", "--", "&") and _ref_d(n.get("e")) == d:
            writes.append((n, ps, n["op"], None))
    walkp(fn["body"], v)
    if len(init) != 1 or len(writes) != 1 or init[0].get("k") != "Call" or init[0].get("cname") != "begin":
        return None
    V = _ref_d(init[0].get("obj") or {})
    n, ps, op, rhs = writes[0]
    it = _ref_d(_unwrap(rhs)) if rhs is not None else None
    loops = [p for p in ps if p.get("k") in ("For", "While", "Do", "RangeFor")]
    if V is None or op != "=" or it is None or len(loops) != 1 or loops[0].get("k") != "For":
        return None
    L = loops[0]
    # it = V.begin(); it != V.end(); ++it
    inits = []
    walk(L.get("init") or {}, lambda x: inits.extend(v2 for v2 in x.get("vars", []) if v2.get("d") == it) if x.get("k") == "Decl" else None)
    if len(inits) != 1:
        return None
    i0 = _unwrap(inits[0].get("init"))
    if i0.get("k") != "Call" or i0.get("cname") != "begin" or _ref_d(i0.get("obj") or {}) != V:
        return None
    c = strip_all(L.get("c") or {})
    ends = []
    walk(c, lambda x: ends.append(x) if x.get("k") == "Call" and x.get("cname") == "end" and _ref_d(x.get("obj") or {}) == V else None)
    if c.get("op") != "!=" or len(ends) != 1 or "++" not in txt(L.get("inc") or {}):
        return None
    steps = []
    walk(L.get("b") or {}, lambda x: steps.append(x) if x.get("k") in ("OpCall", "Un", "Assign") and x.get("op") in ("++", "--", "+=", "-=", "=") and _ref_d((x.get("args") or [x.get("e") or x.get("l") or {}])[0]) == it else None)
    if steps:
        return None

    def deref(x):
        x = strip_all(x)
        if x.get("k") in ("Un", "OpCall") and x.get("op") == "*":
            return _ref_d(x.get("e") or (x.get("args") or [{}])[0])
        return None
    lits = [l for l, origin in reach_tagged(L.get("b"), n) if origin != "loop"]
    if len(lits) != 1:
        return None
    gp = gt_pair(lits[0])
    if not gp or deref(gp[0]) != d or deref(gp[1]) != it:
        return None
    return V


def overload_siblings(facts):
    """typed overloads of update / get_estimate / get_lower_bound / get_upper_bound hand the same bytes to the (void*, size) core"""
    fs = cm(facts)
    out = []
    fam = {}
    for pat, fn in fs.items():
        if fn["name"] in ("update", "get_estimate", "get_lower_bound", "get_upper_bound") and fn["params"] and not fn["params"][0]["t"].startswith("const void"):
            fam.setdefault(fn["params"][0]["t"], {})[fn["name"]] = fn

    def core_args(fn):
        calls = []
        walk(fn["body"], lambda n: calls.append(n) if n.get("k") == "Call" and n.get("cname") == fn["name"] and len(n.get("args", [])) >= 2 else None)
        if not calls:
            return None
        guards = []
        walk(fn["body"], lambda n: guards.append(txt(n["c"])) if n.get("k") == "If" else None)
        return ([txt(a) for a in calls[0]["args"][:2]], guards)
    for t, d in sorted(fam.items()):
        ref = core_args(d["update"]) if "update" in d else None
        for name, fn in sorted(d.items()):
            key = "count_min_sketch::%s(%s):bytes" % (name, t)
            got = core_args(fn)
            wrong = []
            if got is None:
                walk(fn["body"], lambda n: wrong.append(n) if n.get("k") == "Call" and n.get("cname") in ("update", "get_estimate", "get_lower_bound", "get_upper_bound") and n.get("cname") != fn["name"] and (n.get("crec") or "").endswith("count_min_sketch") else None)
            if wrong:
                out.append(ob("cm.siblings", key, wrong[0]["loc"], "violated", "%s(%s) forwards to %s(...) instead of %s(const void*, size): wrong peer (e.g. the lower bound answered with the upper bound breaks lower <= estimate <= upper)" % (name, t, wrong[0]["cname"], name), fn["qname"]))
            elif got is None or ref is None:
                out.append(ob("cm.siblings", key, fn["pat"], "unrecognised", "no delegation to the (void*, size) overload found", fn["qname"]))
            elif got == ref:
                out.append(ob("cm.siblings", key, fn["pat"], "discharged", "hands (%s) to the core overload, like update" % ", ".join(got[0]), fn["qname"]))
            else:
                out.append(ob("cm.siblings", key, fn["pat"], "violated", "%s(%s) passes %s guarded by %s, update passes %s guarded by %s: the query addresses different cells than the update" % (name, t, got[0], got[1], ref[0], ref[1]), fn["qname"]))
    return out


def merge_rules(facts):
    fs = cm(facts)
    out = []
    for pat, fn in sorted(fs.items()):
        if fn["name"] != "merge":
            continue
        st = stmts_of(fn["body"])
        inl = {d: v["init"] for d, v in local_decls(fn).items() if v.get("init") is not None}
        self_at, cfg_at, loop_at = None, None, None
        cfg_txt = ""
        for i, s in enumerate(st):
            if s.get("k") == "If" and always_throws(s.get("t")):
                c = txt(s["c"], inl).replace(" ", "")
                if "this" in c and "&other_sketch" in c and "==" in c and self_at is None:
                    self_at = i
                elif cfg_at is None:
                    cfg_at = i
                    cfg_txt = c
            if s.get("k") in ("While", "For", "RangeFor") and loop_at is None:
                loop_at = i
        key = "count_min_sketch::merge:self-merge-refused"
        ok = self_at is not None and (loop_at is None or self_at < loop_at)
        out.append(ob("cm.merge", key, fn["pat"], "discharged" if ok else "violated", "`if (this == &other) throw` precedes the merge loop" if ok else "self merge is not refused before cells are added", fn["qname"]))
        key = "count_min_sketch::merge:configuration-check"
        # truth table: with eqH / eqB / eqS := this and the other sketch agree on the number of hashes / of buckets / on the full
        # seed (read through the getter or the field), some throwing guard before the cell loop must fire iff not all three hold
        from astu import tt_eval, single_assignment_locals
        sa = single_assignment_locals(fn)
        other_d = fn["params"][0]["d"] if fn.get("params") else None

        def fld(e):
            """(is_other, canonical field name) of get_x() / x / _x on this or on the other sketch"""
            e = strip_all(e)
            if e.get("k") == "Call" and not e.get("args") and (e.get("cname") or "").startswith("get_"):
                o = strip_all(e.get("obj") or {"k": "This"})
                return (o.get("k") == "Ref" and o.get("d") == other_d, e["cname"][4:].lstrip("_"))
            if e.get("k") == "Member" and e.get("isfield"):
                o = strip_all(e.get("b") or {"k": "This"})
                return (o.get("k") == "Ref" and o.get("d") == other_d, e["f"].lstrip("_"))
            return None

        def mk_atom(vals):
            def atom(n):
                if n.get("k") == "Bin" and n.get("op") in ("==", "!="):
                    a, b2 = fld(n["l"]), fld(n["r"])
                    if a and b2 and a[0] != b2[0] and a[1] == b2[1] and a[1] in vals:
                        return vals[a[1]] if n["op"] == "==" else (not vals[a[1]])
                return None
            return atom
        guards = [st[i] for i in range(len(st)) if st[i].get("k") == "If" and always_throws(st[i].get("t")) and i != self_at and (loop_at is None or i < loop_at)]
        cfg_ok = bool(guards)
        for h in (True, False):
            for bk in (True, False):
                for sd in (True, False):
                    at = mk_atom({"num_hashes": h, "num_buckets": bk, "seed": sd})
                    vals = [tt_eval(g["c"], at, sa) for g in guards]
                    fires = True if any(v is True for v in vals) else (False if all(v is False for v in vals) else None)
                    if fires is None or fires != (not (h and bk and sd)):
                        cfg_ok = False
        cfg_txt = " ; ".join(txt(g["c"], sa) for g in guards)
        if cfg_ok:
            out.append(ob("cm.merge", key, fn["pat"], "discharged", "hashes, buckets and the full seed are compared; a mismatch throws before cells are added", fn["qname"]))
        else:
            out.append(ob("cm.merge", key, fn["pat"], "violated", "the configuration check `%s` does not throw exactly when number of hashes, number of buckets or the full 64-bit seed differ: sketches that address cells differently (e.g. different seeds with the same 16-bit seed hash) would be summed" % cfg_txt[:200], fn["qname"]))
        key = "count_min_sketch::merge:cellwise-sum"
        # one loop; one write per iteration: this cell += the other sketch's cell at the same position; totals added once at top level
        probs = []
        L = st[loop_at] if loop_at is not None else None
        writes = []
        if L is not None:
            walk(L, lambda n: writes.append(n) if n.get("k") == "Assign" else None)
        pa_all = {}
        from triggers import plainly_assigned_locals
        inits = {d: v["init"] for d, v in local_decls(fn).items() if v.get("init") is not None}

        def origin(e):
            """("this" | "other", how) for an expression that walks this / the other cell array in step with the loop"""
            e = strip_all(e)
            if e.get("k") in ("Un", "OpCall") and e.get("op") == "*":
                it = strip_all(e.get("e") or (e.get("args") or [{}])[0])
                ini = strip_all(inits.get(it.get("d")) or {}) if it.get("k") == "Ref" else {}
                while ini.get("k") == "Construct" and len(ini.get("args", [])) == 1:
                    ini = strip_all(ini["args"][0])
                if ini.get("k") == "Call" and ini.get("cname") in ("begin", "cbegin"):
                    o = txt(ini.get("obj")) if ini.get("obj") is not None else "this"
                    stepped = []
                    walk(L, lambda n: stepped.append(n) if (n.get("k") in ("Un", "OpCall") and n.get("op") == "++" and _ref_d(n.get("e") or (n.get("args") or [{}])[0]) == it.get("d")) else None)
                    if len(stepped) == 1:
                        return ("other" if o.startswith("other") or (strip_all(ini.get("obj") or {}).get("d") == other_d) else "this", "iterator")
                return None
            if e.get("k") == "Ref" and L.get("k") == "RangeFor" and e.get("d") == (L.get("var") or {}).get("d"):
                return ("this" if txt(L.get("range")) == "_sketch_array" else "other", "element")
            ci = _cell_index(e)
            if ci is not None:
                return ("this", "index:" + txt(ci))
            if e.get("k") in ("Index", "OpCall") and txt(e).startswith(("other_sketch._sketch_array[",)):
                return ("other", "index:" + txt(e.get("i") or e["args"][1]))
            return None
        if L is None:
            probs.append("no merge loop")
        elif len(writes) != 1 or writes[0].get("op") != "+=":
            probs.append("the loop writes %s" % [txt(w) for w in writes])
        else:
            lo, ro = origin(writes[0]["l"]), origin(writes[0]["r"])
            if not lo or not ro or lo[0] != "this" or ro[0] != "other" or (lo[1].startswith("index") and lo[1] != ro[1]):
                probs.append("the loop performs `%s`, not this cell += the other sketch's cell at the same position" % txt(writes[0]))
            cond = []
            walkp(L, lambda n, ps: cond.extend(p.get("k") for p in ps if p.get("k") in ("If", "Cond", "Switch")) if n is writes[0] else None)
            if cond:
                probs.append("the addition is conditional")
        tots = [strip(x["e"]) for x in st if x.get("k") == "Expr" and isinstance(strip(x.get("e")), dict) and strip(x["e"]).get("k") == "Assign" and is_this_field(strip(x["e"])["l"], ("_total_weight",))]
        tot = len(tots) == 1 and tots[0].get("op") == "+=" and fld(tots[0]["r"]) == (True, "total_weight")
        if not tot:
            probs.append("total weight update is %s" % [txt(t) for t in tots])
        ok = not probs
        out.append(ob("cm.merge", key, fn["pat"], "discharged" if ok else "violated", "every cell += the other sketch's cell; totals added" if ok else "merge: %s: every cell must receive the other's cell exactly once and the totals must be added" % "; ".join(probs), fn["qname"]))
        # linearity on every path: no early return past the checks (it would skip the cell sum or the total), and no write to the
        # cells other than the additive one (copying the other table replaces what was accumulated)
        rets = []
        walk(fn["body"], lambda n: rets.append(n) if n.get("k") == "Return" else None)
        copies = []
        walk(fn["body"], lambda n: copies.append(n) if n.get("k") == "Call" and n.get("cname") in ("copy", "copy_n", "fill", "assign", "swap") and "_sketch_array" in txt(n) else None)
        assigns = []
        walk(fn["body"], lambda n: assigns.append(n) if n.get("k") == "Assign" and n.get("op") == "=" and ("_sketch_array" in txt(n["l"]) or txt(n["l"]).startswith("*it")) else None)
        key = "count_min_sketch::merge:single-additive-path"
        if rets or copies or assigns:
            what = ("an early `return` at %s" % rets[0]["loc"].split("/")[-1]) if rets else ("`%s`" % txt((copies or assigns)[0])[:70])
            out.append(ob("cm.merge", key, (rets or copies or assigns)[0]["loc"], "violated", "merge contains %s: a path that leaves merge without adding the totals, or that overwrites cells instead of adding to them, breaks linearity (merging into a fresh accumulator must equal one sketch fed both streams; a stale total weight of 0 also keeps is_empty() true)" % what, fn["qname"]))
        else:
            out.append(ob("cm.merge", key, fn["pat"], "discharged", "one path after the checks: additive cell loop, then totals; no early return, no overwriting of cells", fn["qname"]))
    return out


def config_guard(facts):
    """the constructor's size limit must be evaluated without 32-bit wrap-around"""
    fs = cm(facts)
    out = []
    for pat, fn in sorted(fs.items()):
        if fn["kind"] != "ctor" or fn.get("special") or len(fn["params"]) < 2:
            continue
        idx = [0]

        def v(n):
            if n.get("k") == "Bin" and n.get("op") in ("<", ">=", ">", "<=") and n.get("t") == "bool":
                for side, other in (("l", "r"), ("r", "l")):
                    m = strip(n[side])
                    c = strip(n[other])
                    if m.get("k") == "Bin" and m.get("op") == "*" and "v" in c and c["v"] >= (1 << 16):
                        key = "count_min_sketch::count_min_sketch:size-limit#%d" % idx[0]
                        idx[0] += 1
                        if m.get("sz", 8) < 8:
                            out.append(ob("cm.config", key, n["loc"], "violated", "`%s` is evaluated in %d-bit arithmetic: e.g. 255 hashes x 16843010 buckets wraps to a small product, passes the limit and allocates a tiny array that updates then overrun" % (txt(n), m.get("sz", 4) * 8), fn["qname"]))
                        else:
                            out.append(ob("cm.config", key, n["loc"], "discharged", "size limit `%s` evaluated in 64 bits" % txt(n), fn["qname"]))
        walk(fn["body"], v)
        walk(fn.get("inits", []), v)
    return out
