#include "common.hpp"
#include "tuple_sketch.hpp"
#include "tuple_union.hpp"
#include "tuple_intersection.hpp"
#include "tuple_a_not_b.hpp"
#include "tuple_jaccard_similarity.hpp"
#include "array_of_doubles_sketch.hpp"
#include "theta_sketch.hpp"
using namespace datasketches;
struct sum_policy { void operator()(double& a, const double& b) const { a += b; } };
void all() {
  auto s = update_tuple_sketch<double>::builder().set_lg_k(12).build();
  s.update(uint64_t(1), 1.0); s.update(int64_t(1), 1.0); s.update(uint32_t(1), 1.0); s.update(int32_t(1), 1.0); s.update(uint16_t(1), 1.0); s.update(int16_t(1), 1.0); s.update(uint8_t(1), 1.0); s.update(int8_t(1), 1.0);
  s.update(1.0, 1.0); s.update(1.0f, 1.0); s.update(std::string("a"), 1.0); s.update("a", 1, 1.0); s.trim(); s.reset();
  update_tuple_sketch<double> c(s); update_tuple_sketch<double> m(std::move(c)); m = s; s = std::move(m);
  compact_tuple_sketch<double> cs = s.compact(true); compact_tuple_sketch<double> cs2(s, false);
  auto b = cs.serialize(); auto bh = cs.serialize(8); std::stringstream ss; cs.serialize(ss);
  auto d1 = compact_tuple_sketch<double>::deserialize(b.data(), b.size()); auto d2 = compact_tuple_sketch<double>::deserialize(ss);
  for (auto& e: cs) { (void)e; } for (auto& e: s) { (void)e; }
  (void)cs.get_estimate(); (void)cs.get_lower_bound(1); (void)cs.get_upper_bound(1); (void)cs.to_string(true); (void)s.to_string(true);
  auto f = s.filter([](double v){ return v > 0; }); auto f2 = cs.filter([](double v){ return v > 0; });
  auto u = tuple_union<double, sum_policy>::builder(sum_policy()).build(); u.update(s); u.update(cs); u.update(std::move(cs2)); auto ur = u.get_result(true); u.reset();
  tuple_intersection<double, sum_policy> i; i.update(s); i.update(cs); i.update(std::move(d1)); auto ir = i.get_result(true);
  tuple_a_not_b<double> anb; auto r1 = anb.compute(s, cs, true); auto r2 = anb.compute(std::move(d2), s);
  // theta sketches as operands
  auto ts = update_theta_sketch::builder().build(); ts.update(1); compact_tuple_sketch<double> ct(ts, 1.0, true); compact_tuple_sketch<double> ct2(ts.compact(), 1.0, false); u.update(ct); i.update(ct2);
  // array of doubles
  auto as = update_array_of_doubles_sketch::builder(2).build(); std::vector<double> vals(2, 1.0); as.update(uint64_t(1), vals); as.update(std::string("a"), vals.data());
  auto acs = as.compact(true); auto ab = acs.serialize(); auto abh = acs.serialize(8); std::stringstream ass; acs.serialize(ass);
  auto ad1 = compact_array_of_doubles_sketch::deserialize(ab.data(), ab.size()); auto ad2 = compact_array_of_doubles_sketch::deserialize(ass);
  auto au = array_of_doubles_union::builder(2).build(); au.update(as); au.update(acs); auto aur = au.get_result();
}
