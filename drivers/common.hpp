#pragma once
#include <sstream>
#include <string>
#include <vector>
#include <cstdint>
// Drivers are never executed: they only force instantiation of every entry point.
