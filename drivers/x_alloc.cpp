// Every family instantiated with a user allocator type that is NOT std::allocator, so that any container, string or
// smart pointer inside the library that still names std::allocator (or default-constructs its allocator) is visible in the
// typed AST. Never executed.
#include "common.hpp"
#include <memory>
#include "theta_sketch.hpp"
#include "theta_union.hpp"
#include "theta_intersection.hpp"
#include "theta_a_not_b.hpp"
#include "tuple_sketch.hpp"
#include "tuple_union.hpp"
#include "tuple_intersection.hpp"
#include "tuple_a_not_b.hpp"
#include "hll.hpp"
#include "cpc_sketch.hpp"
#include "cpc_union.hpp"
#include "kll_sketch.hpp"
#include "req_sketch.hpp"
#include "quantiles_sketch.hpp"
#include "frequent_items_sketch.hpp"
#include "count_min.hpp"
#include "var_opt_sketch.hpp"
#include "var_opt_union.hpp"
#include "ebpps_sketch.hpp"
#include "tdigest.hpp"
#include "bloom_filter.hpp"
#include "density_sketch.hpp"

template<typename T> struct verif_alloc {
  using value_type = T;
  int id;
  verif_alloc(int i = 0): id(i) {}
  template<typename U> verif_alloc(const verif_alloc<U>& o): id(o.id) {}
  T* allocate(std::size_t n) { return static_cast<T*>(::operator new(n * sizeof(T))); }
  void deallocate(T* p, std::size_t) { ::operator delete(p); }
  template<typename U> struct rebind { using other = verif_alloc<U>; };
  bool operator==(const verif_alloc& o) const { return id == o.id; }
  bool operator!=(const verif_alloc& o) const { return id != o.id; }
};
using namespace datasketches;
using A8 = verif_alloc<uint8_t>; using A64 = verif_alloc<uint64_t>;
struct sum_policy { void operator()(double& a, const double& b) const { a += b; } };

void theta_all() {
  auto s = update_theta_sketch_alloc<A64>::builder(A64(1)).build(); s.update(1); s.update(std::string("a")); s.trim(); s.reset();
  auto c = s.compact(); auto b = c.serialize(); auto b2 = c.serialize_compressed(); std::stringstream ss; c.serialize(ss);
  auto d = compact_theta_sketch_alloc<A64>::deserialize(b.data(), b.size(), DEFAULT_SEED, A64(1)); auto d2 = compact_theta_sketch_alloc<A64>::deserialize(ss, DEFAULT_SEED, A64(1));
  auto u = theta_union_alloc<A64>::builder(A64(1)).build(); u.update(s); u.update(c); auto ur = u.get_result(); u.reset();
  theta_intersection_alloc<A64> i(DEFAULT_SEED, A64(1)); i.update(s); i.update(c); auto ir = i.get_result();
  theta_a_not_b_alloc<A64> anb(DEFAULT_SEED, A64(1)); auto r = anb.compute(s, c);
  (void)s.to_string(true); (void)c.to_string(true);
}
void tuple_all() {
  using AD = verif_alloc<double>;
  using US = update_tuple_sketch<double, double, default_tuple_update_policy<double, double>, AD>;
  auto s = US::builder(default_tuple_update_policy<double, double>(), AD(1)).build(); s.update(1, 1.0); s.trim(); s.reset();
  auto c = s.compact(); auto b = c.serialize(); std::stringstream ss; c.serialize(ss);
  using CS = compact_tuple_sketch<double, AD>;
  auto d = CS::deserialize(b.data(), b.size(), DEFAULT_SEED, serde<double>(), AD(1)); auto d2 = CS::deserialize(ss, DEFAULT_SEED, serde<double>(), AD(1));
  auto u = tuple_union<double, sum_policy, AD>::builder(sum_policy(), AD(1)).build(); u.update(s); u.update(c); auto ur = u.get_result();
  tuple_intersection<double, sum_policy, AD> i(DEFAULT_SEED, sum_policy(), AD(1)); i.update(s); auto ir = i.get_result();
  tuple_a_not_b<double, AD> anb(DEFAULT_SEED, AD(1)); auto r = anb.compute(s, c);
  auto f = c.filter([](double v){ return v > 0; }); (void)s.to_string(true);
}
void hll_all() {
  hll_sketch_alloc<A8> s(12, HLL_4, false, A8(1)); s.update(1); s.update(std::string("a")); s.reset();
  hll_sketch_alloc<A8> c(s); hll_sketch_alloc<A8> c6(s, HLL_6); c = s;
  auto b = s.serialize_compact(); auto bu = s.serialize_updatable(); std::stringstream ss; s.serialize_compact(ss);
  auto d = hll_sketch_alloc<A8>::deserialize(b.data(), b.size(), A8(1)); auto d2 = hll_sketch_alloc<A8>::deserialize(ss, A8(1));
  hll_union_alloc<A8> u(12, A8(1)); u.update(s); u.update(std::move(c6)); u.update(1); auto ur = u.get_result(HLL_8); u.reset();
  (void)s.get_estimate(); (void)s.get_lower_bound(1); (void)s.to_string(true, true, true, true);
}
void cpc_all() {
  cpc_sketch_alloc<A8> s(11, DEFAULT_SEED, A8(1)); s.update(1); s.update(std::string("a"));
  auto b = s.serialize(); std::stringstream ss; s.serialize(ss);
  auto d = cpc_sketch_alloc<A8>::deserialize(b.data(), b.size(), DEFAULT_SEED, A8(1)); auto d2 = cpc_sketch_alloc<A8>::deserialize(ss, DEFAULT_SEED, A8(1));
  cpc_union_alloc<A8> u(11, DEFAULT_SEED, A8(1)); u.update(s); u.update(std::move(d)); auto ur = u.get_result();
  (void)s.get_estimate(); (void)s.to_string();
}
template<typename S> void quant_all(S s, S o) {
  s.update(1.0f); s.merge(o); s.merge(std::move(o));
  auto b = s.serialize(); std::stringstream ss; s.serialize(ss);
  auto d = S::deserialize(b.data(), b.size(), serde<float>(), std::less<float>(), verif_alloc<float>(1)); auto d2 = S::deserialize(ss, serde<float>(), std::less<float>(), verif_alloc<float>(1));
  (void)s.get_rank(1.0f); (void)s.get_quantile(0.5); float sp[1] = {1.0f}; auto pmf = s.get_PMF(sp, 1); auto cdf = s.get_CDF(sp, 1);
  for (auto p: s) { (void)p; } auto v = s.get_sorted_view(); S c(s); c = s; c = std::move(d); (void)s.to_string(true, true);
}
void quantiles_all() {
  using AF = verif_alloc<float>;
  quant_all(kll_sketch<float, std::less<float>, AF>(200, std::less<float>(), AF(1)), kll_sketch<float, std::less<float>, AF>(200, std::less<float>(), AF(1)));
  quant_all(req_sketch<float, std::less<float>, AF>(12, true, std::less<float>(), AF(1)), req_sketch<float, std::less<float>, AF>(12, true, std::less<float>(), AF(1)));
  quant_all(quantiles_sketch<float, std::less<float>, AF>(128, std::less<float>(), AF(1)), quantiles_sketch<float, std::less<float>, AF>(64, std::less<float>(), AF(1)));
}
void fi_all() {
  using AS = verif_alloc<int64_t>;
  using FI = frequent_items_sketch<int64_t, uint64_t, std::hash<int64_t>, std::equal_to<int64_t>, AS>;
  FI s(6, 3, std::equal_to<int64_t>(), AS(1)); s.update(1); s.update(2, 3); FI o(s); s.merge(o); s.merge(std::move(o));
  auto b = s.serialize(); std::stringstream ss; s.serialize(ss);
  auto d = FI::deserialize(b.data(), b.size(), serde<int64_t>(), std::equal_to<int64_t>(), AS(1)); auto d2 = FI::deserialize(ss, serde<int64_t>(), std::equal_to<int64_t>(), AS(1));
  auto r = s.get_frequent_items(NO_FALSE_POSITIVES); auto r2 = s.get_frequent_items(NO_FALSE_NEGATIVES, 1); (void)s.get_estimate(1); (void)s.to_string(true);
}
void count_all() {
  using AU = verif_alloc<uint64_t>;
  count_min_sketch<uint64_t, AU> s(3, 5, DEFAULT_SEED, AU(1)); s.update(uint64_t(1)); s.update(int64_t(1), 2); s.update(std::string("a")); s.update("a", 1, 1);
  (void)s.get_estimate(uint64_t(1)); (void)s.get_estimate(int64_t(1)); (void)s.get_estimate(std::string("a")); (void)s.get_upper_bound(uint64_t(1)); (void)s.get_lower_bound(uint64_t(1));
  count_min_sketch<uint64_t, AU> o(3, 5, DEFAULT_SEED, AU(1)); s.merge(o);
  auto b = s.serialize(); std::stringstream ss; s.serialize(ss);
  auto d = count_min_sketch<uint64_t, AU>::deserialize(b.data(), b.size(), DEFAULT_SEED, AU(1)); auto d2 = count_min_sketch<uint64_t, AU>::deserialize(ss, DEFAULT_SEED, AU(1));
  (void)s.to_string();
}
void sampling_all() {
  using AI = verif_alloc<int>;
  var_opt_sketch<int, AI> s(32, var_opt_constants::DEFAULT_RESIZE_FACTOR, AI(1)); s.update(1, 1.0); var_opt_sketch<int, AI> c(s); c = s; s.reset();
  auto b = s.serialize(); std::stringstream ss; s.serialize(ss);
  auto d = var_opt_sketch<int, AI>::deserialize(b.data(), b.size(), serde<int>(), AI(1)); auto d2 = var_opt_sketch<int, AI>::deserialize(ss, serde<int>(), AI(1));
  for (auto p: s) { (void)p; } (void)s.estimate_subset_sum([](int){ return true; }); (void)s.to_string();
  var_opt_union<int, AI> u(32, AI(1)); u.update(s); u.update(std::move(c)); auto ur = u.get_result(); u.reset();
  auto ub = u.serialize(); std::stringstream us; u.serialize(us); auto ud = var_opt_union<int, AI>::deserialize(ub.data(), ub.size(), serde<int>(), AI(1)); auto ud2 = var_opt_union<int, AI>::deserialize(us, serde<int>(), AI(1));
  ebpps_sketch<int, AI> e(8, AI(1)); e.update(1, 1.0); ebpps_sketch<int, AI> eo(8, AI(1)); e.merge(eo); e.merge(std::move(eo));
  auto er = e.get_result(); auto eb = e.serialize(); std::stringstream es; e.serialize(es);
  auto ed = ebpps_sketch<int, AI>::deserialize(eb.data(), eb.size(), serde<int>(), AI(1)); auto ed2 = ebpps_sketch<int, AI>::deserialize(es, serde<int>(), AI(1));
  for (auto x: e) { (void)x; } (void)e.to_string();
}
void tdigest_all() {
  using AD = verif_alloc<double>;
  tdigest<double, AD> t(100, AD(1)); t.update(1.0); tdigest<double, AD> o(100, AD(1)); t.merge(o); t.compress();
  (void)t.get_rank(1.0); (void)t.get_quantile(0.5); double sp[1] = {1.0}; auto pmf = t.get_PMF(sp, 1); auto cdf = t.get_CDF(sp, 1);
  auto b = t.serialize(); std::stringstream ss; t.serialize(ss);
  auto d = tdigest<double, AD>::deserialize(b.data(), b.size(), AD(1)); auto d2 = tdigest<double, AD>::deserialize(ss, AD(1)); (void)t.to_string(true);
}
void bloom_all() {
  auto f = bloom_filter_alloc<A8>::builder::create_by_size(1024, 3, 1, A8(1)); f.update(1); f.update(std::string("a")); (void)f.query(1); (void)f.query_and_update(2);
  auto g = bloom_filter_alloc<A8>::builder::create_by_accuracy(100, 0.01, 1, A8(1)); bloom_filter_alloc<A8> c(f); c = f; c = std::move(g);
  f.union_with(c); f.intersect(c); f.invert(); f.reset();
  auto b = f.serialize(); std::stringstream ss; f.serialize(ss);
  auto d = bloom_filter_alloc<A8>::deserialize(b.data(), b.size(), A8(1)); auto d2 = bloom_filter_alloc<A8>::deserialize(ss, A8(1)); (void)f.to_string(true);
}
struct any_kernel { template<typename V1, typename V2> float operator()(const V1& a, const V2& b) const { return a[0] * b[0]; } };
void density_all() {
  using AF = verif_alloc<float>;
  using DS = density_sketch<float, any_kernel, AF>;
  DS s(10, 3, any_kernel(), AF(1)); DS::Vector p(3, 0.0f, AF(1)); s.update(p); s.update(DS::Vector(3, 1.0f, AF(1))); DS o(s); s.merge(o); s.merge(std::move(o));
  (void)s.get_estimate(std::vector<float>(3, 0.0f)); for (auto x: s) { (void)x; }
  auto b = s.serialize(); std::stringstream ss; s.serialize(ss); auto d = DS::deserialize(b.data(), b.size(), any_kernel(), AF(1)); auto d2 = DS::deserialize(ss, any_kernel(), AF(1)); (void)s.to_string(true, true);
}
