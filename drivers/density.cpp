#include "common.hpp"
#include "density_sketch.hpp"
namespace datasketches { template class density_sketch<double>; }
using namespace datasketches;
void all() {
  using S = density_sketch<double>; S s(10, 2); std::vector<double> p(2, 1.0); s.update(p); s.update(std::vector<double>(2, 0.0)); S c(s); s.merge(c); s.merge(std::move(c));
  (void)s.get_estimate(p); for (auto it = s.begin(); it != s.end(); ++it) { (void)*it; } (void)s.to_string(true, true);
  auto b = s.serialize(8); std::stringstream ss; s.serialize(ss); auto d1 = S::deserialize(b.data(), b.size()); auto d2 = S::deserialize(ss);
}
