#include "common.hpp"
#include "tdigest.hpp"
namespace datasketches { template class tdigest<double>; template class tdigest<float>; }
using namespace datasketches;
void all() {
  tdigest_double t(100); t.update(1.0); tdigest_double c(t); t.merge(c); double sp = 1;
  (void)t.get_rank(1.0); (void)t.get_quantile(0.5); (void)t.get_PMF(&sp, 1); (void)t.get_CDF(&sp, 1); (void)t.get_min_value(); (void)t.get_max_value(); (void)t.get_total_weight(); (void)t.to_string(true);
  auto b = t.serialize(8, true); std::stringstream ss; t.serialize(ss, true); auto d1 = tdigest_double::deserialize(b.data(), b.size()); auto d2 = tdigest_double::deserialize(ss); (void)t.get_serialized_size_bytes(true);
}
