#include "common.hpp"
#include "theta_sketch.hpp"
#include "theta_union.hpp"
#include "theta_intersection.hpp"
#include "theta_a_not_b.hpp"
#include "theta_jaccard_similarity.hpp"
namespace datasketches {
template class update_theta_sketch_alloc<std::allocator<uint64_t>>;
template class compact_theta_sketch_alloc<std::allocator<uint64_t>>;
template class wrapped_compact_theta_sketch_alloc<std::allocator<uint64_t>>;
template class theta_union_alloc<std::allocator<uint64_t>>;
template class theta_intersection_alloc<std::allocator<uint64_t>>;
template class theta_a_not_b_alloc<std::allocator<uint64_t>>;
}
using namespace datasketches;
void all() {
  auto s = update_theta_sketch::builder().set_lg_k(12).set_p(0.5f).set_seed(1).set_resize_factor(theta_constants::resize_factor::X2).build();
  s.update(uint64_t(1)); s.update(int64_t(1)); s.update(uint32_t(1)); s.update(int32_t(1)); s.update(uint16_t(1)); s.update(int16_t(1)); s.update(uint8_t(1)); s.update(int8_t(1));
  s.update(1.0); s.update(1.0f); s.update(std::string("a")); s.update("a", 1); s.trim(); s.reset();
  update_theta_sketch c(s); update_theta_sketch m(std::move(c)); m = s; s = std::move(m);
  compact_theta_sketch cs = s.compact(true); compact_theta_sketch cs2(s, false);
  auto b = cs.serialize(); auto bh = cs.serialize(8); auto bc = cs.serialize_compressed(); auto bch = cs.serialize_compressed(8); std::stringstream ss; cs.serialize(ss); cs.serialize_compressed(ss);
  auto d1 = compact_theta_sketch::deserialize(b.data(), b.size()); auto d2 = compact_theta_sketch::deserialize(ss);
  auto w = wrapped_compact_theta_sketch::wrap(b.data(), b.size()); for (auto h: w) { (void)h; } for (auto h: cs) { (void)h; } for (auto h: s) { (void)h; }
  (void)cs.get_estimate(); (void)cs.get_lower_bound(1); (void)cs.get_upper_bound(1); (void)cs.to_string(true); (void)w.to_string(true); (void)s.to_string(true);
  (void)cs.get_serialized_size_bytes(true); (void)compact_theta_sketch::get_max_serialized_size_bytes(12);
  auto u = theta_union::builder().build(); u.update(s); u.update(cs); u.update(w); u.update(std::move(cs2)); auto ur = u.get_result(true); u.reset();
  theta_intersection i; i.update(s); i.update(cs); i.update(w); auto ir = i.get_result(true); (void)i.has_result();
  theta_a_not_b anb; auto r1 = anb.compute(s, cs, true); auto r2 = anb.compute(cs, w, false); auto r3 = anb.compute(std::move(d1), s);
  (void)theta_jaccard_similarity::jaccard(s, cs); (void)theta_jaccard_similarity::exactly_equal(s, cs); (void)theta_jaccard_similarity::similarity_test(s, cs, 0.5); (void)theta_jaccard_similarity::dissimilarity_test(s, cs, 0.5);
}
