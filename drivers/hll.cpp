#include "common.hpp"
#include "hll.hpp"
namespace datasketches { template class hll_sketch_alloc<std::allocator<uint8_t>>; }
using namespace datasketches;
void all() {
  hll_sketch s(12, HLL_4, false); hll_sketch s6(12, HLL_6, true); hll_sketch s8(12, HLL_8);
  s.update(uint64_t(1)); s.update(int64_t(1)); s.update(uint32_t(1)); s.update(int32_t(1)); s.update(uint16_t(1)); s.update(int16_t(1)); s.update(uint8_t(1)); s.update(int8_t(1));
  s.update(1.0); s.update(1.0f); s.update(std::string("a")); s.update("a", 1); s.reset();
  hll_sketch c(s); hll_sketch c8(s, HLL_8); hll_sketch c6(s, HLL_6); hll_sketch c4(s8, HLL_4); hll_sketch m(std::move(c)); m = s; s = std::move(m);
  auto b = s.serialize_compact(8); auto bu = s.serialize_updatable(); std::stringstream ss; s.serialize_compact(ss); s.serialize_updatable(ss);
  auto d1 = hll_sketch::deserialize(b.data(), b.size()); auto d2 = hll_sketch::deserialize(ss);
  (void)s.get_estimate(); (void)s.get_composite_estimate(); (void)s.get_lower_bound(1); (void)s.get_upper_bound(1); (void)s.is_empty(); (void)s.to_string(true, true, true, true);
  (void)s.get_compact_serialization_bytes(); (void)s.get_updatable_serialization_bytes(); (void)hll_sketch::get_max_updatable_serialization_bytes(12, HLL_4); (void)hll_sketch::get_rel_err(true, true, 12, 1);
  hll_union u(12); u.update(s); u.update(std::move(c8)); u.update(uint64_t(1)); u.update(int64_t(1)); u.update(uint32_t(1)); u.update(int32_t(1)); u.update(uint16_t(1)); u.update(int16_t(1)); u.update(uint8_t(1)); u.update(int8_t(1));
  u.update(1.0); u.update(1.0f); u.update(std::string("a")); u.update("a", 1);
  auto r = u.get_result(HLL_4); (void)u.get_estimate(); (void)u.get_composite_estimate(); (void)u.get_lower_bound(1); (void)u.get_upper_bound(1); (void)u.is_empty(); (void)u.get_lg_config_k(); u.reset();
  (void)u.get_target_type(); (void)hll_union::get_rel_err(true, true, 12, 1);
}
