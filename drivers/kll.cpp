#include "common.hpp"
#include "kll_sketch.hpp"
namespace datasketches { template class kll_sketch<float>; template class kll_sketch<int64_t>; }
using namespace datasketches;
template<class S, class T> void drive(T v) {
  S s(200); s.update(v); T lv = v; s.update(lv); S c(s); S m(std::move(c)); m = s; s = std::move(m); s.merge(c); s.merge(std::move(c));
  auto b = s.serialize(); auto bh = s.serialize(8); std::stringstream ss; s.serialize(ss);
  auto d1 = S::deserialize(b.data(), b.size()); auto d2 = S::deserialize(ss);
  (void)s.get_rank(v); (void)s.get_quantile(0.5); (void)s.get_PMF(&v, 1); (void)s.get_CDF(&v, 1); (void)s.get_min_item(); (void)s.get_max_item();
  for (auto it = s.begin(); it != s.end(); ++it) { (void)*it; } auto sv = s.get_sorted_view(); (void)s.to_string(true, true);
  (void)s.get_serialized_size_bytes(); (void)S::get_max_serialized_size_bytes(200, 1000); (void)s.get_normalized_rank_error(false); (void)s.get_num_retained(); (void)s.is_estimation_mode();
}
void all() { drive<kll_sketch<float>, float>(1.0f); drive<kll_sketch<int64_t>, int64_t>(1); }
