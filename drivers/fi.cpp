#include "common.hpp"
#include "frequent_items_sketch.hpp"
namespace datasketches { template class frequent_items_sketch<int64_t>; template class reverse_purge_hash_map<int64_t, uint64_t, std::hash<int64_t>, std::equal_to<int64_t>, std::allocator<int64_t>>; }
using namespace datasketches;
void all() {
  using S = frequent_items_sketch<int64_t>;
  S s(8); int64_t v = 1; s.update(v, 2); s.update(int64_t(3), 1); S c(s); S m(std::move(c)); m = s; s = std::move(m); s.merge(c); s.merge(std::move(c));
  auto b = s.serialize(8); std::stringstream ss; s.serialize(ss); auto d1 = S::deserialize(b.data(), b.size()); auto d2 = S::deserialize(ss);
  (void)s.get_estimate(v); (void)s.get_lower_bound(v); (void)s.get_upper_bound(v); (void)s.get_maximum_error(); (void)s.get_total_weight(); (void)s.get_epsilon(); (void)S::get_epsilon(8); (void)S::get_apriori_error(8, 100);
  auto r = s.get_frequent_items(NO_FALSE_POSITIVES); auto r2 = s.get_frequent_items(NO_FALSE_NEGATIVES, 3); (void)s.to_string(true); (void)s.get_serialized_size_bytes(); (void)s.get_num_active_items();
}
