// thorough tier: non-arithmetic item type (std::string) so that the non-trivial enable_if overloads, the serde<string>
// paths and the item construct/destroy paths are instantiated and analysed.  Never executed.
#include "common.hpp"
#include "kll_sketch.hpp"
#include "req_sketch.hpp"
#include "quantiles_sketch.hpp"
#include "frequent_items_sketch.hpp"
#include "var_opt_sketch.hpp"
#include "var_opt_union.hpp"
#include "ebpps_sketch.hpp"
using namespace datasketches;
template<class S> void quant(const std::string& v) {
  S s(32); s.update(v); s.update(std::string("b")); S c(s); S m(std::move(c)); m = s; s = std::move(m); s.merge(c); s.merge(std::move(c));
  auto b = s.serialize(); auto bh = s.serialize(8); std::stringstream ss; s.serialize(ss);
  auto d1 = S::deserialize(b.data(), b.size()); auto d2 = S::deserialize(ss);
  (void)s.get_rank(v); (void)s.get_quantile(0.5); (void)s.get_PMF(&v, 1); (void)s.get_CDF(&v, 1); (void)s.get_min_item(); (void)s.get_max_item();
  for (auto it = s.begin(); it != s.end(); ++it) { (void)*it; } auto sv = s.get_sorted_view(); (void)s.to_string(true, true); (void)s.get_serialized_size_bytes();
}
void all() {
  quant<kll_sketch<std::string>>("a"); quant<req_sketch<std::string>>("a"); quant<quantiles_sketch<std::string>>("a");
  { using S = frequent_items_sketch<std::string>; S s(4); std::string v("a"); s.update(v, 1); s.update(std::string("b"), 2); S c(s); s.merge(c); s.merge(std::move(c));
    auto b = s.serialize(8); std::stringstream ss; s.serialize(ss); auto d1 = S::deserialize(b.data(), b.size()); auto d2 = S::deserialize(ss);
    (void)s.get_estimate(v); (void)s.get_lower_bound(v); (void)s.get_upper_bound(v); auto r = s.get_frequent_items(NO_FALSE_POSITIVES); (void)s.to_string(true); (void)s.get_serialized_size_bytes(); }
  { using S = var_opt_sketch<std::string>; S s(32); std::string v("a"); s.update(v, 1.0); s.update(std::string("b"), 2.0); S c(s); S m(std::move(c)); m = s; s = std::move(m);
    auto b = s.serialize(8); std::stringstream ss; s.serialize(ss); auto d1 = S::deserialize(b.data(), b.size()); auto d2 = S::deserialize(ss);
    for (auto it = s.begin(); it != s.end(); ++it) { (void)*it; } (void)s.to_string(); s.reset(); (void)s.get_serialized_size_bytes();
    using U = var_opt_union<std::string>; U u(32); u.update(s); u.update(std::move(d1)); auto r = u.get_result(); U uc(u); U um(std::move(uc)); um = std::move(u); U ua(16); ua = um; u.reset();
    auto ub = u.serialize(8); std::stringstream uss; u.serialize(uss); auto ud1 = U::deserialize(ub.data(), ub.size()); auto ud2 = U::deserialize(uss); }
  { using E = ebpps_sketch<std::string>; E e(16); std::string v("a"); e.update(v, 1.0); e.update(std::string("b"), 1.0); E ec(e); e.merge(ec); e.merge(std::move(ec));
    auto eb = e.serialize(8); std::stringstream ess; e.serialize(ess); auto ed1 = E::deserialize(eb.data(), eb.size()); auto ed2 = E::deserialize(ess);
    auto er = e.get_result(); for (auto it = e.begin(); it != e.end(); ++it) { (void)*it; } (void)e.to_string(); e.reset(); (void)e.get_serialized_size_bytes(); }
}
