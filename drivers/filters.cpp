#include "common.hpp"
#include "bloom_filter.hpp"
namespace datasketches { template class bloom_filter_alloc<std::allocator<uint8_t>>; }
using namespace datasketches;
void all() {
  auto f = bloom_filter::builder::create_by_size(1024, 3, 1); auto f2 = bloom_filter::builder::create_by_accuracy(100, 0.01, 1);
  std::vector<uint8_t> mem(4096); auto fm = bloom_filter::builder::initialize_by_size(mem.data(), mem.size(), 1024, 3, 1); auto fm2 = bloom_filter::builder::initialize_by_accuracy(mem.data(), mem.size(), 100, 0.01, 1);
  f.update(uint64_t(1)); f.update(int64_t(1)); f.update(uint32_t(1)); f.update(int32_t(1)); f.update(uint16_t(1)); f.update(int16_t(1)); f.update(uint8_t(1)); f.update(int8_t(1)); f.update(1.0); f.update(1.0f); f.update(std::string("a")); f.update("a", 1);
  (void)f.query(uint64_t(1)); (void)f.query(int64_t(1)); (void)f.query(uint32_t(1)); (void)f.query(int32_t(1)); (void)f.query(uint16_t(1)); (void)f.query(int16_t(1)); (void)f.query(uint8_t(1)); (void)f.query(int8_t(1)); (void)f.query(1.0); (void)f.query(1.0f); (void)f.query(std::string("a")); (void)f.query("a", 1);
  (void)f.query_and_update(uint64_t(1)); (void)f.query_and_update(int64_t(1)); (void)f.query_and_update(uint32_t(1)); (void)f.query_and_update(int32_t(1)); (void)f.query_and_update(uint16_t(1)); (void)f.query_and_update(int16_t(1)); (void)f.query_and_update(uint8_t(1)); (void)f.query_and_update(int8_t(1)); (void)f.query_and_update(1.0); (void)f.query_and_update(1.0f); (void)f.query_and_update(std::string("a")); (void)f.query_and_update("a", 1);
  bloom_filter c(f); bloom_filter m(std::move(c)); m = f; f = std::move(m); f.union_with(f2); f.intersect(f2); f.invert(); f.reset(); (void)f.get_bits_used(); (void)f.is_empty(); (void)f.to_string(true);
  auto b = f.serialize(8); std::stringstream ss; f.serialize(ss); auto d1 = bloom_filter::deserialize(b.data(), b.size()); auto d2 = bloom_filter::deserialize(ss);
  auto w = bloom_filter::wrap(b.data(), b.size()); auto ww = bloom_filter::writable_wrap(b.data(), b.size()); (void)f.get_serialized_size_bytes(); (void)bloom_filter::get_serialized_size_bytes(1024);
}
