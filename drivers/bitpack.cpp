#include "common.hpp"
#include "theta_sketch.hpp"
using namespace datasketches;
void all() { uint64_t v[8] = {0}; uint8_t b[64] = {0}; for (uint8_t bits = 1; bits < 64; ++bits) { pack_bits_block8(v, b, bits); unpack_bits_block8(v, b, bits); } uint8_t* p = b; const uint8_t* q = b; uint64_t x = 0; pack_bits(x, 5, p, 0); unpack_bits(x, 5, q, 0); }
