#include "common.hpp"
#include "count_min.hpp"
namespace datasketches { template class count_min_sketch<uint64_t>; }
using namespace datasketches;
void all() {
  using S = count_min_sketch<uint64_t>;
  S s(3, 100); s.update(uint64_t(1), 1); s.update(int64_t(1), 1); s.update(std::string("a"), 1); s.update("a", 1, 1);
  (void)s.get_estimate(uint64_t(1)); (void)s.get_estimate(int64_t(1)); (void)s.get_estimate(std::string("a")); (void)s.get_estimate("a", 1);
  (void)s.get_upper_bound(uint64_t(1)); (void)s.get_lower_bound(uint64_t(1)); (void)s.get_upper_bound(std::string("a")); (void)s.get_lower_bound(std::string("a")); (void)s.get_upper_bound(int64_t(1)); (void)s.get_lower_bound(int64_t(1));
  S c(s); s.merge(c); auto b = s.serialize(8); std::stringstream ss; s.serialize(ss); auto d1 = S::deserialize(b.data(), b.size(), DEFAULT_SEED); auto d2 = S::deserialize(ss, DEFAULT_SEED);
  (void)s.to_string(); (void)S::suggest_num_buckets(0.1); (void)S::suggest_num_hashes(0.9); (void)s.get_relative_error(); (void)s.get_total_weight(); (void)s.get_serialized_size_bytes();
}
