#include "common.hpp"
#include "var_opt_sketch.hpp"
#include "var_opt_union.hpp"
#include "ebpps_sketch.hpp"
// whole-class instantiation impossible: latent compile errors in var_opt_sketch::iterator::operator++(int), ebpps_sample::const_iterator::operator->
using namespace datasketches;
void all() {
  using S = var_opt_sketch<int>; S s(32); int v = 1; s.update(v, 1.0); s.update(2, 2.0); S c(s); S m(std::move(c)); m = s; s = std::move(m);
  auto b = s.serialize(8); std::stringstream ss; s.serialize(ss); auto d1 = S::deserialize(b.data(), b.size()); auto d2 = S::deserialize(ss);
  for (auto it = s.begin(); it != s.end(); ++it) { (void)*it; } { auto it = s.begin(); it++; } (void)s.estimate_subset_sum([](int x){ return x > 0; }); (void)s.to_string(); s.reset(); (void)s.get_serialized_size_bytes();
  using U = var_opt_union<int>; U u(32); u.update(s); u.update(std::move(d1)); auto r = u.get_result(); U uc(u); U um(std::move(uc)); um = std::move(u); U ua(16); ua = um; u.reset();
  auto ub = u.serialize(8); std::stringstream uss; u.serialize(uss); auto ud1 = U::deserialize(ub.data(), ub.size()); auto ud2 = U::deserialize(uss); (void)u.to_string(); (void)u.get_serialized_size_bytes();
  using E = ebpps_sketch<int>; E e(16); e.update(v, 1.0); e.update(2, 1.0); E ec(e); e.merge(ec); e.merge(std::move(ec));
  auto eb = e.serialize(8); std::stringstream ess; e.serialize(ess); auto ed1 = E::deserialize(eb.data(), eb.size()); auto ed2 = E::deserialize(ess);
  auto er = e.get_result(); for (auto it = e.begin(); it != e.end(); ++it) { (void)*it; } { auto it = e.begin(); it++; } (void)e.to_string(); (void)e.items_to_string(); e.reset(); (void)e.get_serialized_size_bytes(); (void)e.get_c();
}
