#include "common.hpp"
#include "cpc_sketch.hpp"
#include "cpc_union.hpp"
namespace datasketches { template class cpc_sketch_alloc<std::allocator<uint8_t>>; template class cpc_union_alloc<std::allocator<uint8_t>>; }
using namespace datasketches;
void all() {
  cpc_sketch s(11);
  s.update(uint64_t(1)); s.update(int64_t(1)); s.update(uint32_t(1)); s.update(int32_t(1)); s.update(uint16_t(1)); s.update(int16_t(1)); s.update(uint8_t(1)); s.update(int8_t(1));
  s.update(1.0); s.update(1.0f); s.update(std::string("a")); s.update("a", 1);
  cpc_sketch c(s); cpc_sketch m(std::move(c)); m = s; s = std::move(m);
  auto b = s.serialize(8); std::stringstream ss; s.serialize(ss); auto d1 = cpc_sketch::deserialize(b.data(), b.size()); auto d2 = cpc_sketch::deserialize(ss);
  (void)s.get_estimate(); (void)s.get_lower_bound(1); (void)s.get_upper_bound(1); (void)s.validate(); (void)s.to_string(); (void)cpc_sketch::get_max_serialized_size_bytes(11);
  cpc_union u(11); u.update(s); u.update(std::move(d1)); auto r = u.get_result(); cpc_union uc(u); cpc_union um(std::move(uc)); um = u; u = std::move(um);
}
