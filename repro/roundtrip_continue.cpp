// Triage tool (NOT a check): C09 "a restored sketch continues like the original". For the deterministic families: build a
// sketch of n items, round-trip it (bytes and stream), feed the same m further items to the original and to the restored
// copy, and compare their serialized images and estimates.
#include <cstdio>
#include <sstream>
#include <string>
#include <vector>
#include "theta_sketch.hpp"
#include "tuple_sketch.hpp"
#include "hll.hpp"
#include "cpc_sketch.hpp"
#include "frequent_items_sketch.hpp"
#include "count_min.hpp"
#include "tdigest.hpp"
#include "bloom_filter.hpp"
#include "quantiles_sketch.hpp"
using namespace datasketches;
static int bad = 0;
template<typename B> static bool same(const B& a, const B& b) { return a.size() == b.size() && std::equal(a.begin(), a.end(), b.begin()); }
#define CHECK(cond, ...) do { if (!(cond)) { ++bad; std::printf(__VA_ARGS__); std::printf("\n"); } } while (0)
int main() {
  const int ns[] = {0, 1, 2, 7, 8, 9, 100, 1000, 5000, 40000};
  for (int n: ns) for (int m: {1, 50, 3000}) {
    { // HLL all types and lg_k
      for (auto t: {HLL_4, HLL_6, HLL_8}) for (int lgk: {4, 8, 12}) {
        hll_sketch s(lgk, t); for (int i = 0; i < n; ++i) s.update(i);
        auto b = s.serialize_compact(); auto d1 = hll_sketch::deserialize(b.data(), b.size());
        auto u = s.serialize_updatable(); auto d2 = hll_sketch::deserialize(u.data(), u.size());
        std::stringstream ss; s.serialize_updatable(ss); auto d3 = hll_sketch::deserialize(ss);
        for (int i = 0; i < m; ++i) { s.update(n + i); d1.update(n + i); d2.update(n + i); d3.update(n + i); }
        auto r = s.serialize_updatable();
        CHECK(same(r, d1.serialize_updatable()), "hll type=%d lgk=%d n=%d m=%d: compact round trip diverges (est %.3f vs %.3f)", (int) t, lgk, n, m, s.get_estimate(), d1.get_estimate());
        CHECK(same(r, d2.serialize_updatable()), "hll type=%d lgk=%d n=%d m=%d: updatable round trip diverges (est %.3f vs %.3f)", (int) t, lgk, n, m, s.get_estimate(), d2.get_estimate());
        CHECK(same(r, d3.serialize_updatable()), "hll type=%d lgk=%d n=%d m=%d: stream round trip diverges", (int) t, lgk, n, m);
      }
    }
    { cpc_sketch s(10); for (int i = 0; i < n; ++i) s.update(i);
      auto b = s.serialize(); auto d = cpc_sketch::deserialize(b.data(), b.size()); std::stringstream ss; s.serialize(ss); auto d2 = cpc_sketch::deserialize(ss);
      for (int i = 0; i < m; ++i) { s.update(n + i); d.update(n + i); d2.update(n + i); }
      CHECK(same(s.serialize(), d.serialize()), "cpc n=%d m=%d: bytes round trip diverges (est %.4f vs %.4f)", n, m, s.get_estimate(), d.get_estimate());
      CHECK(same(s.serialize(), d2.serialize()), "cpc n=%d m=%d: stream round trip diverges (est %.4f vs %.4f)", n, m, s.get_estimate(), d2.get_estimate()); }
    { frequent_items_sketch<int64_t> s(5); for (int i = 0; i < n; ++i) s.update(i % 97, 1 + i % 3);
      auto b = s.serialize(); auto d = frequent_items_sketch<int64_t>::deserialize(b.data(), b.size());
      for (int i = 0; i < m; ++i) { s.update((n + i) % 89, 2); d.update((n + i) % 89, 2); }
      bool eq = s.get_total_weight() == d.get_total_weight() && s.get_maximum_error() == d.get_maximum_error() && s.get_num_active_items() == d.get_num_active_items();
      for (int k = 0; k < 100 && eq; ++k) eq = s.get_estimate(k) == d.get_estimate(k) && s.get_upper_bound(k) == d.get_upper_bound(k);
      CHECK(eq, "fi n=%d m=%d: restored sketch diverges (total %llu vs %llu, max err %llu vs %llu)", n, m, (unsigned long long) s.get_total_weight(), (unsigned long long) d.get_total_weight(), (unsigned long long) s.get_maximum_error(), (unsigned long long) d.get_maximum_error()); }
    { count_min_sketch<uint64_t> s(3, 64); for (int i = 0; i < n; ++i) s.update((uint64_t) i);
      auto b = s.serialize(); auto d = count_min_sketch<uint64_t>::deserialize(b.data(), b.size(), DEFAULT_SEED);
      for (int i = 0; i < m; ++i) { s.update((uint64_t) (n + i)); d.update((uint64_t) (n + i)); }
      CHECK(same(s.serialize(), d.serialize()), "count_min n=%d m=%d: restored sketch diverges", n, m); }
    { tdigest<double> s(50); for (int i = 0; i < n; ++i) s.update(i * 0.37);
      auto b = s.serialize(); auto d = tdigest<double>::deserialize(b.data(), b.size()); auto bb = s.serialize(0, true); auto d2 = tdigest<double>::deserialize(bb.data(), bb.size());
      for (int i = 0; i < m; ++i) { s.update(i * 1.7); d.update(i * 1.7); d2.update(i * 1.7); }
      CHECK(same(s.serialize(), d.serialize()), "tdigest n=%d m=%d: restored sketch diverges (total %llu vs %llu)", n, m, (unsigned long long) s.get_total_weight(), (unsigned long long) d.get_total_weight());
      CHECK(same(s.serialize(), d2.serialize()), "tdigest n=%d m=%d: restored (with buffer) sketch diverges", n, m); }
    { auto s = bloom_filter::builder::create_by_size(4096, 3, 7); for (int i = 0; i < n; ++i) s.update(i);
      auto b = s.serialize(); auto d = bloom_filter::deserialize(b.data(), b.size());
      for (int i = 0; i < m; ++i) { s.update(n + i); d.update(n + i); }
      CHECK(same(s.serialize(), d.serialize()) && s.get_bits_used() == d.get_bits_used(), "bloom n=%d m=%d: restored filter diverges", n, m); }
    { auto s = update_theta_sketch::builder().set_lg_k(6).build(); for (int i = 0; i < n; ++i) s.update(i);
      auto c = s.compact(); auto b = c.serialize(); auto d = compact_theta_sketch::deserialize(b.data(), b.size()); auto bc = c.serialize_compressed(); auto dc = compact_theta_sketch::deserialize(bc.data(), bc.size());
      CHECK(same(b, d.serialize()), "theta n=%d: re-serialized image differs", n);
      CHECK(same(b, dc.serialize()), "theta n=%d: compressed round trip differs", n); }
  }
  std::printf(bad ? "%d divergences\n" : "OK (%d)\n", bad);
  return bad ? 1 : 0;
}
