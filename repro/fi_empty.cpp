#include "frequent_items_sketch.hpp"
#include <iostream>
using namespace datasketches;
int main() {
  frequent_items_sketch<int> a(3);
  for (int i = 0; i < 7; ++i) a.update(i, 1); // 7 distinct unit weights into a map of capacity 6: the purge removes everything
  std::cout << "a: total=" << a.get_total_weight() << " max_error=" << a.get_maximum_error() << " active=" << a.get_num_active_items() << " is_empty=" << a.is_empty() << "\n";
  frequent_items_sketch<int> b(3);
  b.update(100, 5);
  b.merge(a);
  std::cout << "b after merge(a): total=" << b.get_total_weight() << " (expected 12) max_error=" << b.get_maximum_error() << " ub(0)=" << b.get_upper_bound(0) << " (true weight 1)\n";
  auto bytes = a.serialize();
  auto c = frequent_items_sketch<int>::deserialize(bytes.data(), bytes.size());
  std::cout << "a round trip: total=" << c.get_total_weight() << " (expected 7) max_error=" << c.get_maximum_error() << "\n";
  bool ok = b.get_total_weight() == 12 && b.get_upper_bound(0) >= 1 && c.get_total_weight() == 7;
  return ok ? 0 : 1;
}
