#include "hll.hpp"
#include <iostream>
using namespace datasketches;
int main() {
  hll_sketch a(8, HLL_8);
  for (int i = 0; i < 5000; i++) a.update(i);
  hll_union u(12);
  u.update(a);
  u.reset();
  for (int i = 0; i < 100000; i++) u.update(i);
  auto r = u.get_result();
  hll_union fresh(12);
  for (int i = 0; i < 100000; i++) fresh.update(i);
  std::cout << "reset-then-raw: result lg_k=" << (int)r.get_lg_config_k() << "; fresh union: lg_k=" << (int)fresh.get_result().get_lg_config_k() << "\n";
  return r.get_lg_config_k() == 12 ? 0 : 1;
}
