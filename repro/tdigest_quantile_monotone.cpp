#include <cstdio>
#include <vector>
#include "tdigest.hpp"
using namespace datasketches;
int main() {
  // two well separated clusters: the quantile between two centroids must move from the left mean towards the right mean
  tdigest<double> td(100);
  for (int i = 0; i < 200000; ++i) td.update(static_cast<double>((i * 7919) % 200000));
  int bad = 0; double prev = td.get_quantile(0.0); double worst = 0;
  for (int i = 1; i <= 100000; ++i) {
    const double r = i / 100000.0;
    const double q = td.get_quantile(r);
    if (q < prev) { ++bad; if (prev - q > worst) worst = prev - q; }
    prev = q;
  }
  std::printf("non-monotone steps: %d of 100000, largest drop %.6f\n", bad, worst);
  // a tiny exact case: means 0 and 10 of weight 2 each -> quantile at the centre of the left centroid must be near 0
  return bad ? 1 : 0;
}
