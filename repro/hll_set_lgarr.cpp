// C11: one corrupted preamble byte (LG_ARR_BYTE of an updatable SET-mode HLL image) must lead to an exception or a usable sketch,
// never to an unbounded allocation. The user allocator records the largest single request.
#include <cstdio>
#include <cstdlib>
#include <sstream>
#include <vector>
#include "hll.hpp"
static size_t g_max = 0;
template<typename T> struct rec_alloc {
  using value_type = T;
  rec_alloc() {}
  template<typename U> rec_alloc(const rec_alloc<U>&) {}
  T* allocate(std::size_t n) { if (n * sizeof(T) > g_max) g_max = n * sizeof(T); if (n * sizeof(T) > (size_t(1) << 28)) throw std::bad_alloc(); return static_cast<T*>(std::malloc(n * sizeof(T))); }
  void deallocate(T* p, std::size_t) { std::free(p); }
  template<typename U> struct rebind { using other = rec_alloc<U>; };
  bool operator==(const rec_alloc&) const { return true; }
  bool operator!=(const rec_alloc&) const { return false; }
};
int main() {
  using namespace datasketches;
  typedef hll_sketch_alloc<rec_alloc<uint8_t>> sk;
  sk s(12); for (int i = 0; i < 20; ++i) s.update(i);            // SET mode (more than 7 coupons)
  auto img = s.serialize_updatable();
  int bad = 0;
  const int vals[] = {19, 24, 31};
  for (int v: vals) {
    auto c = img; c[4] = static_cast<uint8_t>(v);                // hll_constants::LG_ARR_BYTE
    g_max = 0;
    std::stringstream ss; ss.write(reinterpret_cast<const char*>(c.data()), c.size());
    try { auto d = sk::deserialize(ss); std::printf("lgArr=%d stream: accepted\n", v); }
    catch (const std::exception& e) { std::printf("lgArr=%d stream: exception (%s), largest allocation request %zu bytes for an image of %zu bytes\n", v, e.what(), g_max, c.size()); }
    if (g_max > (size_t(1) << 24)) ++bad;                       // lgK = 12: nothing in this sketch can need 16 MiB
  }
  std::printf(bad ? "UNBOUNDED ALLOCATION from one corrupted byte (%d cases)\n" : "OK\n", bad);
  return bad ? 1 : 0;
}
