#include <cstdio>
#include <sstream>
#include "cpc_sketch.hpp"
using namespace datasketches;
int main() {
  std::setvbuf(stdout, nullptr, _IONBF, 0);
  long acc = 0, rej = 0;
  for (int n: {0, 1, 5, 200, 2000, 20000, 100000}) {
    cpc_sketch s(11); for (int i = 0; i < n; ++i) s.update(i);
    auto img = s.serialize();
    size_t pre = img.size() < 40 ? img.size() : 40;
    for (size_t pos = 0; pos < pre; ++pos) {
      const uint8_t orig = img[pos];
      const int vals[] = {0, 1, 2, 0x7f, 0x80, 0xfe, 0xff, orig + 1, orig - 1, orig ^ 0x10};
      for (int v: vals) {
        if ((uint8_t) v == orig) continue;
        auto c = img; c[pos] = (uint8_t) v;
        std::printf("try n=%d pos=%zu val=%d\n", n, pos, (uint8_t) v);
        try { auto d = cpc_sketch::deserialize(c.data(), c.size()); d.update(12345); (void) d.get_estimate(); auto b = d.serialize(); ++acc; }
        catch (const std::exception& e) { ++rej; }
        if (pos >= 8) continue; // declared counts in a stream: known findings (unbounded allocation)
        std::stringstream ss; ss.write((const char*) c.data(), c.size());
        try { auto d = cpc_sketch::deserialize(ss); d.update(12345); (void) d.get_estimate(); ++acc; }
        catch (const std::exception& e) { ++rej; }
      }
    }
  }
  std::printf("DONE accepted=%ld rejected=%ld\n", acc, rej);
  return 0;
}
