// Triage tool (NOT a check): corrupts one preamble byte of valid images of every family and exercises the restored object under
// ASan/UBSan. Used to confirm / discover C11 defects that the static rules are then written for. Build:
//   g++ -std=c++11 -O1 -g -fsanitize=address,undefined -fno-sanitize=nonnull-attribute -fno-sanitize-recover=undefined <includes> fuzz_all.cpp
#include <cstdio>
#include <cstring>
#include <functional>
#include <sstream>
#include <string>
#include <vector>
#include "theta_sketch.hpp"
#include "tuple_sketch.hpp"
#include "array_of_doubles_sketch.hpp"
#include "hll.hpp"
#include "kll_sketch.hpp"
#include "req_sketch.hpp"
#include "quantiles_sketch.hpp"
#include "frequent_items_sketch.hpp"
#include "count_min.hpp"
#include "var_opt_sketch.hpp"
#include "var_opt_union.hpp"
#include "ebpps_sketch.hpp"
#include "tdigest.hpp"
#include "bloom_filter.hpp"
#include "density_sketch.hpp"
using namespace datasketches;
typedef std::vector<uint8_t> bytes;
static long acc = 0, rej = 0;
static const char* g_only = nullptr;
static void run(const char* name, const bytes& img, std::function<void(const bytes&)> use, size_t stream_limit = 8) {
  if (g_only && std::strcmp(g_only, name)) return;
  const size_t pre = img.size() < 72 ? img.size() : 72;
  for (size_t pos = 0; pos < pre; ++pos) {
    const uint8_t orig = img[pos];
    const int vals[] = {0, 1, 2, 3, 0x7f, 0x80, 0xfe, 0xff, orig + 1, orig - 1, orig ^ 0x10, orig ^ 0x04};
    for (int v: vals) {
      if ((uint8_t) v == orig) continue;
      bytes c = img; c[pos] = (uint8_t) v;
      std::printf("try %s size=%zu pos=%zu val=%d\n", name, img.size(), pos, (uint8_t) v);
      try { use(c); ++acc; } catch (const std::exception&) { ++rej; }
    }
  }
  (void) stream_limit;
}
template<typename S> bytes ser(const S& s) { auto b = s.serialize(); return bytes(b.begin(), b.end()); }
int main(int argc, char** argv) {
  std::setvbuf(stdout, nullptr, _IONBF, 0);
  if (argc > 1) g_only = argv[1];
  for (int n: {0, 1, 3, 9, 100, 5000, 120000}) {
    { auto s = update_theta_sketch::builder().set_lg_k(8).build(); for (int i = 0; i < n; ++i) s.update(i);
      run("theta", ser(s.compact()), [](const bytes& b) { auto d = compact_theta_sketch::deserialize(b.data(), b.size()); (void) d.get_estimate(); for (auto h: d) (void) h; auto r = d.serialize(); (void) d.to_string(true); });
      run("theta_compressed", [&] { auto b = s.compact().serialize_compressed(); return bytes(b.begin(), b.end()); }(), [](const bytes& b) { auto d = compact_theta_sketch::deserialize(b.data(), b.size()); (void) d.get_estimate(); for (auto h: d) (void) h; });
      run("theta_wrapped", ser(s.compact()), [](const bytes& b) { auto d = wrapped_compact_theta_sketch::wrap(b.data(), b.size()); (void) d.get_estimate(); for (auto h: d) (void) h; }); }
    { auto s = update_tuple_sketch<double>::builder().set_lg_k(8).build(); for (int i = 0; i < n; ++i) s.update(i, 1.0);
      run("tuple", ser(s.compact()), [](const bytes& b) { auto d = compact_tuple_sketch<double>::deserialize(b.data(), b.size()); (void) d.get_estimate(); for (auto& e: d) (void) e; auto r = d.serialize(); }); }
    { auto s = update_array_of_doubles_sketch::builder(2).set_lg_k(8).build(); std::vector<double> v(2, 1.0); for (int i = 0; i < n; ++i) s.update(i, v);
      run("aod", ser(s.compact()), [](const bytes& b) { auto d = compact_array_of_doubles_sketch::deserialize(b.data(), b.size()); (void) d.get_estimate(); for (auto& e: d) (void) e; auto r = d.serialize(); }); }
    for (auto t: {HLL_4, HLL_6, HLL_8}) { hll_sketch s(10, t); for (int i = 0; i < n; ++i) s.update(i);
      auto use = [](const bytes& b) { auto d = hll_sketch::deserialize(b.data(), b.size()); (void) d.get_estimate(); d.update(77); (void) d.get_lower_bound(1); auto r = d.serialize_compact(); auto r2 = d.serialize_updatable(); (void) d.to_string(true, true, true, true); hll_union u(10); u.update(d); (void) u.get_result(HLL_4).get_estimate(); };
      auto c = s.serialize_compact(); run("hll_compact", bytes(c.begin(), c.end()), use);
      auto up = s.serialize_updatable(); run("hll_updatable", bytes(up.begin(), up.end()), use); }
    { kll_sketch<float> s(20); for (int i = 0; i < n; ++i) s.update((float) i);
      run("kll", ser(s), [](const bytes& b) { auto d = kll_sketch<float>::deserialize(b.data(), b.size()); if (!d.is_empty()) { (void) d.get_rank(1.0f); (void) d.get_quantile(0.5); } d.update(1.0f); for (auto p: d) (void) p; auto r = d.serialize(); kll_sketch<float> o(20); o.merge(d); }); }
    { req_sketch<float> s(4); for (int i = 0; i < n; ++i) s.update((float) i);
      run("req", ser(s), [](const bytes& b) { auto d = req_sketch<float>::deserialize(b.data(), b.size()); if (!d.is_empty()) { (void) d.get_rank(1.0f); (void) d.get_quantile(0.5); } d.update(1.0f); for (auto p: d) (void) p; auto r = d.serialize(); }); }
    { quantiles_sketch<double> s(16); for (int i = 0; i < n; ++i) s.update(i);
      run("quantiles", ser(s), [](const bytes& b) { auto d = quantiles_sketch<double>::deserialize(b.data(), b.size()); if (!d.is_empty()) { (void) d.get_rank(1.0); (void) d.get_quantile(0.5); } d.update(1.0); for (auto p: d) (void) p; auto r = d.serialize(); }); }
    { frequent_items_sketch<int64_t> s(4); for (int i = 0; i < n; ++i) s.update(i % 37, 1 + i % 3);
      run("fi", ser(s), [](const bytes& b) { auto d = frequent_items_sketch<int64_t>::deserialize(b.data(), b.size()); (void) d.get_estimate(1); d.update(5); auto r = d.get_frequent_items(NO_FALSE_NEGATIVES); auto q = d.serialize(); }); }
    { count_min_sketch<uint64_t> s(3, 16); for (int i = 0; i < n; ++i) s.update((uint64_t) i);
      run("count_min", ser(s), [](const bytes& b) { auto d = count_min_sketch<uint64_t>::deserialize(b.data(), b.size(), DEFAULT_SEED); (void) d.get_estimate((uint64_t) 1); d.update((uint64_t) 5); auto q = d.serialize(); }); }
    { var_opt_sketch<int> s(16); for (int i = 0; i < n; ++i) s.update(i, 1.0 + i % 5);
      run("var_opt", ser(s), [](const bytes& b) { auto d = var_opt_sketch<int>::deserialize(b.data(), b.size()); for (auto p: d) (void) p; d.update(3, 2.0); d.update(4, 1e9); auto q = d.serialize(); (void) d.to_string(); });
      var_opt_union<int> u(16); u.update(s);
      run("var_opt_union", ser(u), [](const bytes& b) { auto d = var_opt_union<int>::deserialize(b.data(), b.size()); auto r = d.get_result(); auto q = d.serialize(); }); }
    { ebpps_sketch<int> s(8); for (int i = 0; i < n; ++i) s.update(i, 1.0 + i % 3);
      run("ebpps", ser(s), [](const bytes& b) { auto d = ebpps_sketch<int>::deserialize(b.data(), b.size()); auto r = d.get_result(); d.update(3, 2.0); auto q = d.serialize(); (void) d.to_string(); }); }
    { tdigest<double> s(50); for (int i = 0; i < n; ++i) s.update(i);
      run("tdigest", ser(s), [](const bytes& b) { auto d = tdigest<double>::deserialize(b.data(), b.size()); if (!d.is_empty()) { (void) d.get_rank(1.0); (void) d.get_quantile(0.5); } d.update(2.0); auto q = d.serialize(); }); }
    { auto s = bloom_filter::builder::create_by_size(512, 3, 1); for (int i = 0; i < n; ++i) s.update(i);
      run("bloom", ser(s), [](const bytes& b) { auto d = bloom_filter::deserialize(b.data(), b.size()); (void) d.query(1); d.update(5); (void) d.get_bits_used(); auto q = d.serialize(); auto w = bloom_filter::wrap(b.data(), b.size()); (void) w.query(1); }); }
    { density_sketch<float> s(8, 2); for (int i = 0; i < n; ++i) s.update(std::vector<float>(2, (float) i));
      run("density", ser(s), [](const bytes& b) { auto d = density_sketch<float>::deserialize(b.data(), b.size()); if (!d.is_empty()) (void) d.get_estimate(std::vector<float>(2, 1.0f)); for (auto p: d) (void) p; d.update(std::vector<float>(2, 1.0f)); auto q = d.serialize(); }); }
  }
  std::printf("DONE accepted=%ld rejected=%ld\n", acc, rej);
  return 0;
}
