// C09/C15: a Bloom filter of more than 2^32 bits (allowed: MAX_FILTER_SIZE_BITS is about 2^37) does not survive serialization:
// the readers compute the capacity as `num_longs << 6` in 32 bits.
#include <cstdio>
#include <sstream>
#include "bloom_filter.hpp"
int main() {
  using namespace datasketches;
  const uint64_t bits = (uint64_t(1) << 32) + 64;                 // 512 MiB + 8 bytes
  auto f = bloom_filter::builder::create_by_size(bits, 3, 1);
  for (uint64_t i = 0; i < 1000; ++i) f.update(i);
  auto img = f.serialize();
  int bad = 0;
  try {
    auto d = bloom_filter::deserialize(img.data(), img.size());
    std::printf("capacity before %llu bits, after deserialize(bytes) %llu bits\n", (unsigned long long) f.get_capacity(), (unsigned long long) d.get_capacity());
    if (d.get_capacity() != f.get_capacity()) ++bad;
    uint64_t lost = 0; for (uint64_t i = 0; i < 1000; ++i) if (!d.query(i)) ++lost;
    std::printf("inserted items reported absent by the restored filter: %llu of 1000\n", (unsigned long long) lost);
    if (lost) ++bad;
  } catch (const std::exception& e) { std::printf("deserialize(bytes) threw: %s\n", e.what()); ++bad; }
  std::printf(bad ? "ROUND TRIP BROKEN\n" : "OK\n");
  return bad ? 1 : 0;
}
