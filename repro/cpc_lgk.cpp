#include <cstdio>
#include <sstream>
#include "cpc_sketch.hpp"
using namespace datasketches;
int main() {
  std::setvbuf(stdout, nullptr, _IONBF, 0);
  for (int n: {0, 5, 2000}) {
    cpc_sketch s(11); for (int i = 0; i < n; ++i) s.update(i);
    auto img = s.serialize();
    for (int v = 0; v < 256; ++v) {
      if (v == 11) continue;
      auto c = img; c[3] = (uint8_t) v;
      std::printf("try n=%d lg_k:=%d\n", n, v);
      try { auto d = cpc_sketch::deserialize(c.data(), c.size()); std::printf("n=%d lg_k:=%d accepted (lg_k now %d, est %.1f)\n", n, v, d.get_lg_k(), d.get_estimate()); d.update(12345); (void)d.get_estimate(); }
      catch (const std::exception& e) { }
    }
  }
  return 0;
}
