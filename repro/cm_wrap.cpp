#include "count_min.hpp"
#include <iostream>
using namespace datasketches;
int main() {
  // 255 * 16843010 = 4294967550 = 2^32 + 254: wraps to 254 in 32-bit arithmetic and passes the `< 2^30` limit
  try {
    count_min_sketch<uint64_t> s(255, 16843010);
    std::cout << "accepted: table has 255*16843010 logical cells\n";
    s.update(uint64_t(1), 1); // writes far outside the 254-cell array
    std::cout << "estimate=" << s.get_estimate(uint64_t(1)) << "\n";
    return 1;
  } catch (const std::invalid_argument& e) {
    std::cout << "rejected: " << e.what() << "\n";
    return 0;
  }
}
