#include "hll.hpp"
#include <iostream>
#include <sstream>
using namespace datasketches;
int main() {
  hll_sketch a(8, HLL_4), b(8, HLL_4);
  for (int i = 0; i < 2000; i++) { a.update(i); b.update(i + 100000); } // HLL mode, no aux exceptions needed
  std::stringstream ss;
  a.serialize_updatable(ss);
  const auto len_a = ss.tellp();
  b.serialize_updatable(ss);
  auto a2 = hll_sketch::deserialize(ss);
  std::cout << "image of a: " << len_a << " bytes; stream position after reading a: " << ss.tellg() << "\n";
  bool ok = ss.tellg() == len_a;
  try {
    auto b2 = hll_sketch::deserialize(ss);
    ok = ok && b2.get_estimate() == b.get_estimate();
    std::cout << "second sketch estimate " << b2.get_estimate() << " expected " << b.get_estimate() << "\n";
  } catch (const std::exception& e) { std::cout << "second sketch: exception: " << e.what() << "\n"; ok = false; }
  return ok ? 0 : 1;
}
