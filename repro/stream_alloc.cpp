// C11 "never ... an unbounded allocation" on the stream path (and the CPC byte path before its fix): a valid image in which ONE
// 32-bit count field is overwritten makes the reader request an allocation unrelated to the size of the image. The user
// allocator records the largest single request and refuses (bad_alloc) anything above 256 MiB so that the run stays small.
#include <cstdio>
#include <cstdlib>
#include <cstring>
#include <sstream>
#include <string>
#include <vector>
#include "theta_sketch.hpp"
#include "tuple_sketch.hpp"
#include "array_of_doubles_sketch.hpp"
#include "frequent_items_sketch.hpp"
#include "tdigest.hpp"
#include "density_sketch.hpp"
#include "cpc_sketch.hpp"
#include "bloom_filter.hpp"
#include "req_sketch.hpp"
static size_t g_max = 0;
template<typename T> struct rec_alloc {
  using value_type = T;
  rec_alloc() {}
  template<typename U> rec_alloc(const rec_alloc<U>&) {}
  T* allocate(std::size_t n) { const size_t b = n * sizeof(T); if (b > g_max) g_max = b; if (b > (size_t(1) << 28)) throw std::bad_alloc(); return static_cast<T*>(std::malloc(b ? b : 1)); }
  void deallocate(T* p, std::size_t) { std::free(p); }
  template<typename U> struct rebind { using other = rec_alloc<U>; };
  bool operator==(const rec_alloc&) const { return true; }
  bool operator!=(const rec_alloc&) const { return false; }
};
using namespace datasketches;
static int bad = 0;
template<typename F> void probe(const char* what, std::string img, size_t off, uint32_t val, F deser) {
  std::memcpy(&img[off], &val, 4);
  g_max = 0;
  std::string outcome = "accepted";
  try { deser(img); } catch (const std::exception& e) { outcome = std::string("exception: ") + e.what(); }
  const bool unbounded = g_max > 64 * img.size() + (1 << 20);
  std::printf("%-34s image %5zu bytes, field@%zu := %u -> largest request %12zu bytes (%s)%s\n", what, img.size(), off, val, g_max, outcome.c_str(), unbounded ? "  <-- UNBOUNDED" : "");
  if (unbounded) ++bad;
}
template<typename S> std::string to_stream(const S& s) { std::stringstream ss; s.serialize(ss); return ss.str(); }
struct any_kernel { template<typename V1, typename V2> float operator()(const V1& a, const V2& b) const { return a[0] * b[0]; } };
int main() {
  const uint32_t BIG = 0x7fffffffu;
  { using A = rec_alloc<uint64_t>; auto s = update_theta_sketch_alloc<A>::builder().build(); for (int i = 0; i < 100; ++i) s.update(i);
    probe("theta compact v3 stream num_entries", to_stream(s.compact()), 8, BIG, [](const std::string& b) { std::stringstream ss(b); compact_theta_sketch_alloc<A>::deserialize(ss); }); }
  { using A = rec_alloc<double>; auto s = update_tuple_sketch<double, double, default_tuple_update_policy<double, double>, A>::builder().build(); for (int i = 0; i < 100; ++i) s.update(i, 1.0);
    probe("tuple compact stream num_entries", to_stream(s.compact()), 8, BIG, [](const std::string& b) { std::stringstream ss(b); compact_tuple_sketch<double, A>::deserialize(ss); }); }
  { using A = rec_alloc<double>; auto s = update_array_tuple_sketch<array<double, A>, default_array_tuple_update_policy<array<double, A>>, A>::builder(default_array_tuple_update_policy<array<double, A>>(1)).build();
    std::vector<double> v(1, 1.0); for (int i = 0; i < 100; ++i) s.update(i, v);
    probe("array tuple compact stream num_entries", to_stream(s.compact()), 16, BIG, [](const std::string& b) { std::stringstream ss(b); compact_array_tuple_sketch<array<double, A>, A>::deserialize(ss); }); }
  { using A = rec_alloc<int64_t>; frequent_items_sketch<int64_t, uint64_t, std::hash<int64_t>, std::equal_to<int64_t>, A> s(6); for (int i = 0; i < 20; ++i) s.update(i);
    probe("frequent items stream num_items", to_stream(s), 8, BIG, [](const std::string& b) { std::stringstream ss(b); frequent_items_sketch<int64_t, uint64_t, std::hash<int64_t>, std::equal_to<int64_t>, A>::deserialize(ss); }); }
  { using A = rec_alloc<double>; tdigest<double, A> t(100); for (int i = 0; i < 1000; ++i) t.update(i);
    probe("tdigest stream num_centroids", to_stream(t), 8, BIG, [](const std::string& b) { std::stringstream ss(b); tdigest<double, A>::deserialize(ss); });
    probe("tdigest stream num_buffered", to_stream(t), 12, BIG, [](const std::string& b) { std::stringstream ss(b); tdigest<double, A>::deserialize(ss); }); }
  { using A = rec_alloc<float>; using DS = density_sketch<float, any_kernel, A>; DS s(8, 2); for (int i = 0; i < 50; ++i) s.update(DS::Vector(2, float(i)));
    probe("density stream dim", to_stream(s), 8, BIG, [](const std::string& b) { std::stringstream ss(b); DS::deserialize(ss); });
    probe("density stream level_size", to_stream(s), 24, BIG, [](const std::string& b) { std::stringstream ss(b); DS::deserialize(ss); }); }
  { using A = rec_alloc<uint8_t>; cpc_sketch_alloc<A> s(11); for (int i = 0; i < 100; ++i) s.update(i);
    probe("cpc stream table_data_words", to_stream(s), 12, BIG, [](const std::string& b) { std::stringstream ss(b); cpc_sketch_alloc<A>::deserialize(ss); });
    probe("cpc bytes table_data_words", to_stream(s), 12, BIG, [](const std::string& b) { cpc_sketch_alloc<A>::deserialize(b.data(), b.size()); }); }
  { using A = rec_alloc<uint8_t>; auto f = bloom_filter_alloc<A>::builder::create_by_size(1024, 3, 1); f.update(1);
    probe("bloom stream num_longs", to_stream(f), 16, 0x0fffffffu, [](const std::string& b) { std::stringstream ss(b); bloom_filter_alloc<A>::deserialize(ss); }); }
  { using A = rec_alloc<float>; req_sketch<float, std::less<float>, A> s(12); for (int i = 0; i < 1000; ++i) s.update((float) i);
    probe("req stream compactor num_items", to_stream(s), 40, BIG, [](const std::string& b) { std::stringstream ss(b); req_sketch<float, std::less<float>, A>::deserialize(ss); }); }
  std::printf(bad ? "%d readers request memory unrelated to the image size after ONE corrupted field\n" : "OK (%d)\n", bad);
  return bad ? 1 : 0;
}
