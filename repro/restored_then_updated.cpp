#include <cstdio>
#include <cmath>
#include "cpc_sketch.hpp"
#include "var_opt_sketch.hpp"
using namespace datasketches;
int main() {
  int bad = 0;
  { cpc_sketch s(11); auto b = s.serialize(); auto d = cpc_sketch::deserialize(b.data(), b.size());
    for (int i = 0; i < 10; ++i) { s.update(i); d.update(i); }
    std::printf("cpc: original estimate %.4f, restored-empty-then-updated estimate %.4f\n", s.get_estimate(), d.get_estimate());
    if (!(std::fabs(s.get_estimate() - d.get_estimate()) < 1e-9)) ++bad; }
  { var_opt_sketch<int> s(8); for (int i = 0; i < 100; ++i) s.update(i, 1.0 + i);
    auto b = s.serialize(); auto d = var_opt_sketch<int>::deserialize(b.data(), b.size());
    try { s.update(1000, 1e9); std::printf("var_opt original: heavy update ok\n"); } catch (const std::exception& e) { std::printf("var_opt original threw: %s\n", e.what()); }
    try { d.update(1000, 1e9); std::printf("var_opt restored: heavy update ok\n"); } catch (const std::exception& e) { std::printf("var_opt restored threw: %s\n", e.what()); ++bad; } }
  return bad;
}
