// C19 "all memory is obtained through the allocator supplied by the user": concrete replay of the static findings
// container.foreign-allocator / container.allocator-passed. Counts (a) calls of the global operator new while only sketches with
// a malloc-backed user allocator are alive, (b) allocations made through a default-constructed instance (id 0) of the stateful
// user allocator instead of the instance (id 7) handed to the sketch.
#include <cstdlib>
#include <cstdio>
#include <new>
#include <vector>
#include <string>
#include "count_min.hpp"
#include "density_sketch.hpp"
#include "ebpps_sketch.hpp"
#include "frequent_items_sketch.hpp"
static long g_new = 0; static bool g_watch = false; static long g_default_inst = 0;
void* operator new(std::size_t n) { if (g_watch) ++g_new; void* p = std::malloc(n); if (!p) throw std::bad_alloc(); return p; }
void operator delete(void* p) noexcept { std::free(p); }
void operator delete(void* p, std::size_t) noexcept { std::free(p); }
template<typename T> struct user_alloc {
  using value_type = T; int id;
  user_alloc(int i = 0): id(i) {}
  template<typename U> user_alloc(const user_alloc<U>& o): id(o.id) {}
  T* allocate(std::size_t n) { if (id == 0 && g_watch) ++g_default_inst; return static_cast<T*>(std::malloc(n * sizeof(T))); }
  void deallocate(T* p, std::size_t) { std::free(p); }
  template<typename U> struct rebind { using other = user_alloc<U>; };
  bool operator==(const user_alloc& o) const { return id == o.id; }
  bool operator!=(const user_alloc& o) const { return id != o.id; }
};
struct any_kernel { template<typename V1, typename V2> float operator()(const V1& a, const V2& b) const { return a[0] * b[0]; } };
int main() {
  using namespace datasketches;
  int bad = 0;
  {
    g_new = 0; g_default_inst = 0; g_watch = true;
    count_min_sketch<uint64_t, user_alloc<uint64_t>> s(3, 16, DEFAULT_SEED, user_alloc<uint64_t>(7));
    for (uint64_t i = 0; i < 100; ++i) s.update(i);
    volatile uint64_t e = s.get_estimate(uint64_t(1)); (void)e;
    g_watch = false;
    std::printf("count_min: global operator new calls = %ld, default-instance allocations = %ld\n", g_new, g_default_inst);
    if (g_new || g_default_inst) ++bad;
  }
  {
    using DS = density_sketch<float, any_kernel, user_alloc<float>>;
    g_new = 0; g_default_inst = 0; g_watch = true;
    DS s(4, 1, any_kernel(), user_alloc<float>(7));
    for (int i = 0; i < 200; ++i) s.update(DS::Vector(1, float(i), user_alloc<float>(7)));
    g_watch = false;
    std::printf("density: global operator new calls = %ld, default-instance allocations = %ld\n", g_new, g_default_inst);
    if (g_new || g_default_inst) ++bad;
  }
  {
    g_new = 0; g_default_inst = 0; g_watch = true;
    ebpps_sketch<int, user_alloc<int>> s(8, user_alloc<int>(7));
    for (int i = 0; i < 100; ++i) s.update(i, 1.0);
    auto r = s.get_result(); (void)r;
    g_watch = false;
    std::printf("ebpps: global operator new calls = %ld, default-instance allocations = %ld\n", g_new, g_default_inst);
    if (g_new || g_default_inst) ++bad;
  }
  std::printf(bad ? "FOREIGN MEMORY in %d families\n" : "OK\n", bad);
  return bad ? 1 : 0;
}
