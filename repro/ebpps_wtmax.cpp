#include <cstdio>
#include <cmath>
#include "ebpps_sketch.hpp"
using namespace datasketches;
int main() {
  // A: 20 items of weight 1 (k=10). B: one item of weight 100 -> B.cum=100 > A.cum=20, so merge swaps; use B heavier max but smaller cum:
  ebpps_sketch<int> a(10), b(10);
  for (int i = 0; i < 200; ++i) a.update(i, 1.0);      // cum 200, max 1
  b.update(1000, 50.0);                                // cum 50, max 50 (smaller cum -> merged INTO a)
  a.merge(b);
  double cum = a.get_cumulative_weight();              // 250
  double expect = std::min(10.0, cum / 50.0);          // 5
  std::printf("after merge: c=%.6f expected min(k, cum/maxwt)=%.6f\n", a.get_c(), expect);
  // continue updating with light items: c must follow min(k, cum / 50)
  int bad = 0;
  for (int i = 0; i < 100; ++i) {
    a.update(2000 + i, 1.0); cum += 1.0;
    double e = std::min(10.0, cum / 50.0);
    if (std::fabs(a.get_c() - e) > 1e-9) { if (!bad) std::printf("update %d: c=%.6f expected %.6f\n", i, a.get_c(), e); ++bad; }
  }
  std::printf("%d of 100 updates after the merge report a wrong c\n", bad);
  return bad ? 1 : 0;
}
