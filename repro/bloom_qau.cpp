#include "bloom_filter.hpp"
#include <iostream>
using namespace datasketches;
int main() {
  bloom_filter bf = bloom_filter::builder::create_by_size(1024, 3);
  bf.update(std::string("x"));
  bool before = bf.query(std::string("x"));
  bool r = bf.query_and_update(std::string("x"));
  bool after = bf.query(std::string("x"));
  std::cout << "before=" << before << " qau=" << r << " after=" << after << " empty=" << bf.is_empty() << "\n";
  return (before && r && after) ? 0 : 1;
}
