// C11: one corrupted preamble byte (lowest byte of the length-in-longs field of a non-empty Bloom image, so that the length
// becomes 0) must lead to an exception or a usable filter, never to a crash: query() computed hash % 0.
#include <cstdio>
#include <csignal>
#include <cstdlib>
#include <sstream>
#include "bloom_filter.hpp"
static void on_fpe(int) { std::printf("CRASH: SIGFPE in query() on the accepted image (division by a zero capacity)\n"); std::_Exit(1); }
int main() {
  using namespace datasketches;
  std::setvbuf(stdout, nullptr, _IONBF, 0);
  std::signal(SIGFPE, on_fpe);
  auto f = bloom_filter::builder::create_by_size(1024, 3, 1); f.update(1);
  auto img = f.serialize();
  img[16] = 0;                                   // num_longs 16 -> 0
  int bad = 0;
  try { auto d = bloom_filter::deserialize(img.data(), img.size()); std::printf("bytes: accepted, capacity %llu\n", (unsigned long long) d.get_capacity()); volatile bool q = d.query(1); (void) q; ++bad; }
  catch (const std::exception& e) { std::printf("bytes: rejected (%s)\n", e.what()); }
  try { std::stringstream ss; ss.write((const char*) img.data(), img.size()); auto d = bloom_filter::deserialize(ss); std::printf("stream: accepted, capacity %llu\n", (unsigned long long) d.get_capacity()); volatile bool q = d.query(1); (void) q; ++bad; }
  catch (const std::exception& e) { std::printf("stream: rejected (%s)\n", e.what()); }
  std::printf(bad ? "accepted a zero-capacity filter\n" : "OK\n");
  return bad ? 1 : 0;
}
