#include <cstdio>
#include <cstdlib>
#include <cstring>
#include <vector>
#include "req_sketch.hpp"
#include "kll_sketch.hpp"
#include "quantiles_sketch.hpp"
static size_t g_max = 0;
template<typename T> struct rec_alloc {
  using value_type = T;
  rec_alloc() {}
  template<typename U> rec_alloc(const rec_alloc<U>&) {}
  T* allocate(std::size_t n) { const size_t b = n * sizeof(T); if (b > g_max) g_max = b; if (b > (size_t(1) << 28)) throw std::bad_alloc(); return static_cast<T*>(std::malloc(b ? b : 1)); }
  void deallocate(T* p, std::size_t) { std::free(p); }
  template<typename U> struct rebind { using other = rec_alloc<U>; };
  bool operator==(const rec_alloc&) const { return true; }
  bool operator!=(const rec_alloc&) const { return false; }
};
using namespace datasketches;
int main() {
  using A = rec_alloc<float>;
  req_sketch<float, std::less<float>, A> s(12); for (int i = 0; i < 1000; ++i) s.update((float) i);
  auto img = s.serialize();
  // find the first compactor's num_items field: scan for every 4-byte position and report the worst request
  size_t worst = 0, at = 0;
  for (size_t pos = 8; pos + 4 <= img.size() && pos < 200; ++pos) {
    auto c = img; uint32_t v = 0x7fffffff; std::memcpy(&c[pos], &v, 4);
    g_max = 0;
    try { auto d = req_sketch<float, std::less<float>, A>::deserialize(c.data(), c.size()); } catch (const std::exception&) {}
    if (g_max > worst) { worst = g_max; at = pos; }
  }
  std::printf("req bytes: image %zu bytes, worst request %zu bytes with 4 bytes at offset %zu := 0x7fffffff\n", img.size(), worst, at);
  return 0;
}
