#include "req_sketch.hpp"
#include <iostream>
#include <set>
#include <sstream>
using namespace datasketches;
// A never-compacted REQ compactor (coin_ = false) whose state_ becomes odd through merge() compacts with the deterministic
// parity !false: the surviving half is the same in every run.  An unbiased sketch must choose it with a fair coin.
int main() {
  // build A until its level-0 compactor has compacted exactly once (state odd); freeze it as an image
  req_sketch<float> a(4);
  int n = 0;
  while (!a.is_estimation_mode()) a.update(static_cast<float>(n++));
  auto image = a.serialize();
  std::set<std::string> outcomes;
  for (int trial = 0; trial < 200; ++trial) {
    auto a2 = req_sketch<float>::deserialize(image.data(), image.size());
    req_sketch<float> b(4);
    for (int i = 0; i < 20; ++i) b.update(1000.0f + i); // never compacted: coin_ is still its initial value
    b.merge(a2);
    for (int i = 0; i < 12; ++i) b.update(2000.0f + i); // forces the first compaction of B's level 0 (state already odd)
    std::ostringstream os;
    for (auto it = b.begin(); it != b.end(); ++it) os << (*it).first << ":" << (*it).second << " ";
    outcomes.insert(os.str());
  }
  std::cout << "n(A)=" << n << " distinct outcomes of B.merge(A) over 200 runs: " << outcomes.size() << "\n";
  return outcomes.size() > 1 ? 0 : 1; // 1 outcome = the compaction parity was not random
}
