// dsx: typed-AST exporter for datasketches-cpp headers (prototype)
#include "clang/AST/ASTConsumer.h"
#include "clang/AST/RecursiveASTVisitor.h"
#include "clang/AST/ExprCXX.h"
#include "clang/AST/StmtCXX.h"
#include "clang/AST/DeclTemplate.h"
#include "clang/Frontend/FrontendActions.h"
#include "clang/Frontend/CompilerInstance.h"
#include "clang/Tooling/CommonOptionsParser.h"
#include "clang/Tooling/Tooling.h"
#include "llvm/Support/CommandLine.h"
#include "llvm/Support/JSON.h"
#include "llvm/Support/raw_ostream.h"
#include <map>
#include <set>
using namespace clang;
namespace J = llvm::json;

static llvm::cl::OptionCategory Cat("dsx");
static llvm::cl::opt<std::string> OutFile("o", llvm::cl::desc("output json"), llvm::cl::cat(Cat), llvm::cl::init("-"));
static llvm::cl::opt<std::string> Root("root", llvm::cl::desc("repo root"), llvm::cl::cat(Cat), llvm::cl::init("/repo/"));

struct Exporter {
  ASTContext& C; PrintingPolicy PP;
  std::map<const Decl*, int> ids; int nextId = 1;
  Exporter(ASTContext& C): C(C), PP(C.getLangOpts()) { PP.SuppressTagKeyword = true; PP.Bool = true; PP.FullyQualifiedName = true; }

  int idOf(const Decl* D) { if (!D) return 0; D = D->getCanonicalDecl(); auto it = ids.find(D); if (it != ids.end()) return it->second; return ids[D] = nextId++; }

  std::string loc(SourceLocation L, bool col = false) {
    auto& SM = C.getSourceManager(); if (L.isInvalid()) return "?";
    auto P = SM.getPresumedLoc(SM.getExpansionLoc(L)); if (!P.isValid()) return "?";
    std::string f = P.getFilename(); if (f.rfind(Root, 0) == 0) f = f.substr(Root.size());
    std::string r = f + ":" + std::to_string(P.getLine()); if (col) r += ":" + std::to_string(P.getColumn()); return r;
  }
  bool inRepoInclude(SourceLocation L) {
    auto& SM = C.getSourceManager(); if (L.isInvalid()) return false;
    auto P = SM.getPresumedLoc(SM.getExpansionLoc(L)); if (!P.isValid()) return false;
    std::string f = P.getFilename(); return f.rfind(Root, 0) == 0 && f.find("/include/") != std::string::npos;
  }
  std::string ty(QualType T) { if (T.isNull()) return "?"; return T.getCanonicalType().getAsString(PP); }
  std::string tySugar(QualType T) { if (T.isNull()) return "?"; return T.getAsString(PP); }

  const FunctionDecl* patternOf(const FunctionDecl* F) {
    if (const FunctionDecl* P = F->getTemplateInstantiationPattern()) return P; return F;
  }
  std::string qname(const NamedDecl* D) { std::string s; llvm::raw_string_ostream os(s); D->printQualifiedName(os, PP); return os.str(); }
  std::string recName(const CXXRecordDecl* R) { if (!R) return ""; return ty(C.getRecordType(R)); }
  std::string recTmpl(const CXXRecordDecl* R) { if (!R) return ""; return qname(R); }

  void addType(J::Object& o, QualType T) {
    o["t"] = ty(T);
    if (!T.isNull() && !T->isDependentType() && !T->isIncompleteType() && !T->isFunctionType() && !T->isVoidType() && !T->isReferenceType() && !T->isPlaceholderType() && !T->isUndeducedType())
      o["sz"] = (int64_t)C.getTypeSizeInChars(T).getQuantity();
  }

  // value of a named floating constant (const-qualified, not a local, initialiser evaluable at compile time)
  void floatConst(J::Object& o, const VarDecl* VD) {
    if (!VD || VD->isLocalVarDecl() || isa<ParmVarDecl>(VD)) return;
    QualType T = VD->getType();
    if (T.isNull() || T->isDependentType() || !T.isConstQualified() || !T->isRealFloatingType()) return;
    const Expr* I = VD->getAnyInitializer();
    if (!I || I->isValueDependent() || I->isTypeDependent()) return;
    llvm::APFloat F(0.0);
    if (I->EvaluateAsFloat(F, C, Expr::SE_NoSideEffects)) {
      bool lose = false; F.convert(llvm::APFloat::IEEEdouble(), llvm::APFloat::rmNearestTiesToEven, &lose);
      o["fv"] = F.convertToDouble();
    }
  }

  J::Value expr(const Expr* E) {
    if (!E) return nullptr;
    // unwrap transparent nodes
    while (true) {
      if (auto* P = dyn_cast<ParenExpr>(E)) { E = P->getSubExpr(); continue; }
      if (auto* P = dyn_cast<ExprWithCleanups>(E)) { E = P->getSubExpr(); continue; }
      if (auto* P = dyn_cast<MaterializeTemporaryExpr>(E)) { E = P->getSubExpr(); continue; }
      if (auto* P = dyn_cast<CXXBindTemporaryExpr>(E)) { E = P->getSubExpr(); continue; }
      if (auto* P = dyn_cast<ConstantExpr>(E)) { E = P->getSubExpr(); continue; }
      if (auto* P = dyn_cast<SubstNonTypeTemplateParmExpr>(E)) { E = P->getReplacement(); continue; }
      if (auto* P = dyn_cast<CXXDefaultArgExpr>(E)) { E = P->getExpr(); continue; }
      if (auto* P = dyn_cast<CXXDefaultInitExpr>(E)) { E = P->getExpr(); continue; }
      if (auto* IC = dyn_cast<ImplicitCastExpr>(E)) {
        auto k = IC->getCastKind();
        if (k == CK_LValueToRValue || k == CK_NoOp || k == CK_ArrayToPointerDecay || k == CK_FunctionToPointerDecay || k == CK_ConstructorConversion || k == CK_UserDefinedConversion || k == CK_DerivedToBase || k == CK_UncheckedDerivedToBase) { E = IC->getSubExpr(); continue; }
      }
      break;
    }
    J::Object o; o["loc"] = loc(E->getExprLoc(), true); addType(o, E->getType());
    // constant value
    if (!E->isValueDependent() && !E->isTypeDependent() && E->getType()->isIntegralOrEnumerationType()) {
      Expr::EvalResult R;
      if (E->EvaluateAsInt(R, C, Expr::SE_NoSideEffects)) { auto V = R.Val.getInt(); o["v"] = V.isSigned() ? (int64_t)V.getSExtValue() : (int64_t)V.getZExtValue(); if (!V.isSigned() && V.getZExtValue() > (uint64_t)INT64_MAX) o["vu"] = std::to_string(V.getZExtValue()); }
    }
    if (auto* X = dyn_cast<IntegerLiteral>(E)) { o["k"] = "Int"; o["lit"] = llvm::toString(X->getValue(), 10, false); }
    else if (auto* X = dyn_cast<FloatingLiteral>(E)) { o["k"] = "Float"; o["f"] = X->getValueAsApproximateDouble(); }
    else if (auto* X = dyn_cast<CXXBoolLiteralExpr>(E)) { o["k"] = "Bool"; o["b"] = X->getValue(); }
    else if (isa<CXXNullPtrLiteralExpr>(E) || isa<GNUNullExpr>(E)) { o["k"] = "Null"; }
    else if (auto* X = dyn_cast<StringLiteral>(E)) { o["k"] = "Str"; if (X->isAscii()) o["s"] = X->getString().str(); }
    else if (auto* X = dyn_cast<CharacterLiteral>(E)) { o["k"] = "Char"; o["c"] = (int64_t)X->getValue(); }
    else if (isa<CXXThisExpr>(E)) { o["k"] = "This"; }
    else if (auto* X = dyn_cast<DeclRefExpr>(E)) {
      o["k"] = "Ref"; const ValueDecl* D = X->getDecl(); o["n"] = D->getNameAsString(); o["d"] = idOf(D);
      const char* dk = "other";
      if (isa<ParmVarDecl>(D)) dk = "param"; else if (auto* VD = dyn_cast<VarDecl>(D)) dk = VD->isLocalVarDecl() ? (VD->isStaticLocal() ? "staticlocal" : "local") : "global";
      else if (isa<EnumConstantDecl>(D)) dk = "enum"; else if (isa<FunctionDecl>(D)) dk = "func"; else if (isa<FieldDecl>(D)) dk = "field"; else if (isa<BindingDecl>(D)) dk = "binding";
      o["dk"] = dk; if (strcmp(dk, "global") == 0 || strcmp(dk, "func") == 0 || strcmp(dk, "enum") == 0) o["q"] = qname(D);
      if (auto* VD = dyn_cast<VarDecl>(D)) floatConst(o, VD);
    }
    else if (auto* X = dyn_cast<MemberExpr>(E)) {
      const ValueDecl* D = X->getMemberDecl();
      o["k"] = "Member"; o["f"] = D->getNameAsString(); o["fid"] = idOf(D); o["arrow"] = X->isArrow(); o["b"] = expr(X->getBase());
      if (auto* FD = dyn_cast<FieldDecl>(D)) { o["rec"] = recTmpl(dyn_cast<CXXRecordDecl>(FD->getParent())); o["isfield"] = true; }
      else if (auto* MD = dyn_cast<CXXMethodDecl>(D)) { o["rec"] = recTmpl(MD->getParent()); o["ismethod"] = true; }
      else if (auto* VD = dyn_cast<VarDecl>(D)) { o["q"] = qname(VD); o["isstatic"] = true; floatConst(o, VD); }
    }
    else if (auto* X = dyn_cast<CXXOperatorCallExpr>(E)) {
      o["k"] = "OpCall"; o["op"] = getOperatorSpelling(X->getOperator());
      if (auto* F = X->getDirectCallee()) { o["callee"] = qname(F); o["cpat"] = loc(patternOf(F)->getLocation()); if (auto* M = dyn_cast<CXXMethodDecl>(F)) o["crec"] = recTmpl(M->getParent()); }
      J::Array a; for (auto* A : X->arguments()) a.push_back(expr(A)); o["args"] = std::move(a);
    }
    else if (auto* X = dyn_cast<CXXMemberCallExpr>(E)) {
      o["k"] = "Call"; o["member"] = true;
      if (auto* M = X->getMethodDecl()) { o["callee"] = qname(M); o["cname"] = M->getNameAsString(); o["crec"] = recTmpl(M->getParent()); o["cpat"] = loc(patternOf(M)->getLocation()); o["cconst"] = M->isConst(); o["cvirtual"] = M->isVirtual(); if (isa<CXXDestructorDecl>(M)) o["dtor"] = true; }
      else if (auto* ME = dyn_cast<MemberExpr>(X->getCallee()->IgnoreParenImpCasts())) { o["cname"] = ME->getMemberDecl()->getNameAsString(); }
      o["obj"] = expr(X->getImplicitObjectArgument());
      J::Array a; for (auto* A : X->arguments()) a.push_back(expr(A)); o["args"] = std::move(a);
    }
    else if (auto* X = dyn_cast<CallExpr>(E)) {
      o["k"] = "Call";
      if (auto* F = X->getDirectCallee()) {
        o["callee"] = qname(F); o["cname"] = F->getNameAsString(); o["cpat"] = loc(patternOf(F)->getLocation());
        if (auto* TA = F->getTemplateSpecializationArgs()) { J::Array ta; for (auto& a : TA->asArray()) { std::string s; llvm::raw_string_ostream os(s); a.print(PP, os, true); ta.push_back(os.str()); } o["targs"] = std::move(ta); }
        if (auto* M = dyn_cast<CXXMethodDecl>(F)) { o["crec"] = recTmpl(M->getParent()); o["cstatic"] = M->isStatic(); }
      } else { o["calleeExpr"] = expr(X->getCallee()); }
      J::Array a; for (auto* A : X->arguments()) a.push_back(expr(A)); o["args"] = std::move(a);
    }
    else if (auto* X = dyn_cast<CXXConstructExpr>(E)) {
      o["k"] = "Construct"; auto* K = X->getConstructor(); o["ctor"] = qname(K); o["crec"] = recTmpl(K->getParent()); o["cpat"] = loc(patternOf(K)->getLocation());
      if (K->isCopyConstructor()) o["ckind"] = "copy"; else if (K->isMoveConstructor()) o["ckind"] = "move"; else if (K->isDefaultConstructor()) o["ckind"] = "default";
      o["temp"] = isa<CXXTemporaryObjectExpr>(X);
      J::Array a; for (auto* A : X->arguments()) a.push_back(expr(A)); o["args"] = std::move(a);
      J::Array pt; for (auto* P : K->parameters()) pt.push_back(ty(P->getType())); o["ptypes"] = std::move(pt);
    }
    else if (auto* X = dyn_cast<UnaryOperator>(E)) { o["k"] = "Un"; o["op"] = UnaryOperator::getOpcodeStr(X->getOpcode()).str(); o["post"] = X->isPostfix(); o["e"] = expr(X->getSubExpr()); }
    else if (auto* X = dyn_cast<BinaryOperator>(E)) { o["k"] = X->isAssignmentOp() ? "Assign" : "Bin"; o["op"] = X->getOpcodeStr().str(); o["l"] = expr(X->getLHS()); o["r"] = expr(X->getRHS()); }
    else if (auto* X = dyn_cast<ConditionalOperator>(E)) { o["k"] = "Cond"; o["c"] = expr(X->getCond()); o["a"] = expr(X->getTrueExpr()); o["e"] = expr(X->getFalseExpr()); }
    else if (auto* X = dyn_cast<CastExpr>(E)) { o["k"] = "Cast"; o["ck"] = X->getCastKindName(); o["impl"] = isa<ImplicitCastExpr>(X); o["e"] = expr(X->getSubExpr()); o["from"] = ty(X->getSubExpr()->getType());
      if (auto* EC = dyn_cast<ExplicitCastExpr>(X)) o["written"] = tySugar(EC->getTypeAsWritten()); }
    else if (auto* X = dyn_cast<UnaryExprOrTypeTraitExpr>(E)) { o["k"] = "Sizeof"; if (X->isArgumentType()) o["of"] = ty(X->getArgumentType()); else o["ofe"] = expr(X->getArgumentExpr()); }
    else if (auto* X = dyn_cast<ArraySubscriptExpr>(E)) { o["k"] = "Index"; o["b"] = expr(X->getBase()); o["i"] = expr(X->getIdx()); }
    else if (auto* X = dyn_cast<CXXNewExpr>(E)) { o["k"] = "New"; o["array"] = X->isArray(); o["of"] = ty(X->getAllocatedType()); if (X->getNumPlacementArgs() > 0) o["placement"] = expr(X->getPlacementArg(0)); if (X->isArray() && X->getArraySize()) o["n"] = expr(*X->getArraySize()); if (X->getInitializer()) o["init"] = expr(X->getInitializer()); }
    else if (auto* X = dyn_cast<CXXDeleteExpr>(E)) { o["k"] = "Delete"; o["array"] = X->isArrayForm(); o["e"] = expr(X->getArgument()); }
    else if (auto* X = dyn_cast<CXXPseudoDestructorExpr>(E)) { o["k"] = "PseudoDtor"; o["b"] = expr(X->getBase()); }
    else if (auto* X = dyn_cast<CXXThrowExpr>(E)) { o["k"] = "Throw"; if (X->getSubExpr()) { o["what"] = ty(X->getSubExpr()->getType());
      // declarations read by the thrown expression (ids only: the message itself is of no interest to any rule)
      J::Array used; std::vector<const Stmt*> work{X->getSubExpr()};
      while (!work.empty()) { const Stmt* S = work.back(); work.pop_back(); if (!S) continue;
        if (auto* DR = dyn_cast<DeclRefExpr>(S)) used.push_back(idOf(DR->getDecl()));
        for (const Stmt* Ch : S->children()) work.push_back(Ch); }
      o["uses"] = std::move(used); } }
    else if (auto* X = dyn_cast<LambdaExpr>(E)) { o["k"] = "Lambda"; o["body"] = stmt(X->getBody()); J::Array caps; for (auto& c : X->captures()) if (c.capturesVariable()) caps.push_back(J::Object{{"n", c.getCapturedVar()->getNameAsString()}, {"d", idOf(c.getCapturedVar())}, {"byref", c.getCaptureKind() == LCK_ByRef}}); o["caps"] = std::move(caps); J::Array lps; if (auto* CO = X->getCallOperator()) for (auto* P : CO->parameters()) lps.push_back(J::Object{{"n", P->getNameAsString()}, {"d", idOf(P)}, {"t", P->getType().getAsString()}}); o["params"] = std::move(lps); }
    else if (auto* X = dyn_cast<InitListExpr>(E)) { o["k"] = "InitList"; J::Array a; for (auto* I : X->inits()) a.push_back(expr(I)); o["args"] = std::move(a); }
    else if (auto* X = dyn_cast<CXXScalarValueInitExpr>(E)) { (void)X; o["k"] = "ZeroInit"; }
    else if (auto* X = dyn_cast<CXXStdInitializerListExpr>(E)) { o["k"] = "StdInitList"; o["e"] = expr(X->getSubExpr()); }
    else if (auto* X = dyn_cast<OpaqueValueExpr>(E)) { o["k"] = "Opaque"; if (X->getSourceExpr()) o["e"] = expr(X->getSourceExpr()); }
    else if (auto* X = dyn_cast<CompoundLiteralExpr>(E)) { o["k"] = "CompoundLit"; o["e"] = expr(X->getInitializer()); }
    else if (auto* X = dyn_cast<ImplicitValueInitExpr>(E)) { (void)X; o["k"] = "ZeroInit"; }
    else if (auto* X = dyn_cast<CXXNoexceptExpr>(E)) { (void)X; o["k"] = "Noexcept"; }
    else if (auto* X = dyn_cast<TypeTraitExpr>(E)) { (void)X; o["k"] = "TypeTrait"; }
    else { o["k"] = "Unknown"; o["cls"] = E->getStmtClassName(); J::Array a; for (auto* ch : E->children()) if (auto* ce = dyn_cast_or_null<Expr>(ch)) a.push_back(expr(ce)); o["args"] = std::move(a); }
    return J::Value(std::move(o));
  }

  J::Value var(const VarDecl* V) {
    J::Object o; o["n"] = V->getNameAsString(); o["d"] = idOf(V); o["t"] = ty(V->getType()); o["ts"] = tySugar(V->getType()); o["loc"] = loc(V->getLocation());
    o["const"] = V->getType().isConstQualified(); o["ref"] = V->getType()->isReferenceType();
    if (!V->getType()->isDependentType() && !V->getType()->isIncompleteType() && !V->getType()->isReferenceType() && !V->getType()->isPlaceholderType() && !V->getType()->isUndeducedType()) o["sz"] = (int64_t)C.getTypeSizeInChars(V->getType()).getQuantity();
    if (V->hasInit()) o["init"] = expr(V->getInit());
    return J::Value(std::move(o));
  }

  J::Value stmt(const Stmt* S) {
    if (!S) return nullptr;
    if (auto* E = dyn_cast<Expr>(S)) { J::Object o; o["k"] = "Expr"; o["e"] = expr(E); o["loc"] = loc(E->getExprLoc()); return J::Value(std::move(o)); }
    J::Object o; o["loc"] = loc(S->getBeginLoc());
    if (auto* X = dyn_cast<CompoundStmt>(S)) { o["k"] = "Block"; J::Array a; for (auto* c : X->body()) a.push_back(stmt(c)); o["s"] = std::move(a); }
    else if (auto* X = dyn_cast<IfStmt>(S)) { o["k"] = "If"; if (X->getInit()) o["init"] = stmt(X->getInit()); if (X->getConditionVariable()) o["cvar"] = var(X->getConditionVariable()); o["c"] = expr(X->getCond()); o["t"] = stmt(X->getThen()); o["e"] = stmt(X->getElse()); }
    else if (auto* X = dyn_cast<ForStmt>(S)) { o["k"] = "For"; o["init"] = stmt(X->getInit()); o["c"] = X->getCond() ? expr(X->getCond()) : J::Value(nullptr); o["inc"] = X->getInc() ? expr(X->getInc()) : J::Value(nullptr); o["b"] = stmt(X->getBody()); }
    else if (auto* X = dyn_cast<CXXForRangeStmt>(S)) { o["k"] = "RangeFor"; o["var"] = var(X->getLoopVariable()); o["range"] = expr(X->getRangeInit()); o["b"] = stmt(X->getBody()); }
    else if (auto* X = dyn_cast<WhileStmt>(S)) { o["k"] = "While"; o["c"] = expr(X->getCond()); o["b"] = stmt(X->getBody()); }
    else if (auto* X = dyn_cast<DoStmt>(S)) { o["k"] = "Do"; o["c"] = expr(X->getCond()); o["b"] = stmt(X->getBody()); }
    else if (auto* X = dyn_cast<SwitchStmt>(S)) { o["k"] = "Switch"; o["c"] = expr(X->getCond()); o["b"] = stmt(X->getBody()); }
    else if (auto* X = dyn_cast<CaseStmt>(S)) { o["k"] = "Case"; o["v"] = expr(X->getLHS()); o["s"] = stmt(X->getSubStmt()); }
    else if (auto* X = dyn_cast<DefaultStmt>(S)) { o["k"] = "Default"; o["s"] = stmt(X->getSubStmt()); }
    else if (auto* X = dyn_cast<ReturnStmt>(S)) { o["k"] = "Return"; if (X->getRetValue()) o["e"] = expr(X->getRetValue()); }
    else if (isa<BreakStmt>(S)) o["k"] = "Break";
    else if (isa<ContinueStmt>(S)) o["k"] = "Continue";
    else if (isa<NullStmt>(S)) o["k"] = "Null";
    else if (auto* X = dyn_cast<DeclStmt>(S)) { o["k"] = "Decl"; J::Array a; for (auto* D : X->decls()) { if (auto* V = dyn_cast<VarDecl>(D)) a.push_back(var(V)); else { J::Object d; d["other"] = D->getDeclKindName(); a.push_back(std::move(d)); } } o["vars"] = std::move(a); }
    else if (auto* X = dyn_cast<CXXTryStmt>(S)) { o["k"] = "Try"; o["b"] = stmt(X->getTryBlock()); J::Array a; for (unsigned i = 0; i < X->getNumHandlers(); ++i) a.push_back(stmt(X->getHandler(i)->getHandlerBlock())); o["handlers"] = std::move(a); }
    else if (auto* X = dyn_cast<AttributedStmt>(S)) { return stmt(X->getSubStmt()); }
    else if (auto* X = dyn_cast<LabelStmt>(S)) { o["k"] = "Label"; o["s"] = stmt(X->getSubStmt()); }
    else if (isa<GotoStmt>(S)) o["k"] = "Goto";
    else { o["k"] = "UnknownStmt"; o["cls"] = S->getStmtClassName(); }
    return J::Value(std::move(o));
  }

  J::Value function(const FunctionDecl* F) {
    J::Object o; const FunctionDecl* P = patternOf(F);
    o["id"] = idOf(F); o["qname"] = qname(F); o["name"] = F->getNameAsString(); o["loc"] = loc(F->getLocation()); o["pat"] = loc(P->getLocation()); o["patq"] = qname(P);
    o["instantiated"] = (P != F) || F->isTemplateInstantiation();
    o["ret"] = ty(F->getReturnType()); o["defaulted"] = F->isDefaulted(); o["implicit"] = F->isImplicit(); o["deleted"] = F->isDeleted();
    J::Array ps; for (auto* p : F->parameters()) { J::Object po; po["n"] = p->getNameAsString(); po["d"] = idOf(p); po["t"] = ty(p->getType()); po["ts"] = tySugar(p->getType()); ps.push_back(std::move(po)); } o["params"] = std::move(ps);
    if (auto* TA = F->getTemplateSpecializationArgs()) { J::Array ta; for (auto& a : TA->asArray()) { std::string s; llvm::raw_string_ostream os(s); a.print(PP, os, true); ta.push_back(os.str()); } o["targs"] = std::move(ta); }
    const char* kind = "function";
    if (auto* M = dyn_cast<CXXMethodDecl>(F)) {
      kind = "method"; o["rec"] = recName(M->getParent()); o["rect"] = recTmpl(M->getParent()); o["static"] = M->isStatic(); o["const"] = M->isConst(); o["virtual"] = M->isVirtual();
      o["access"] = (int)M->getAccess();
      if (auto* K = dyn_cast<CXXConstructorDecl>(M)) { kind = "ctor"; if (K->isCopyConstructor()) o["special"] = "copy-ctor"; else if (K->isMoveConstructor()) o["special"] = "move-ctor";
        J::Array inits; for (auto* I : K->inits()) { J::Object io; if (I->isMemberInitializer()) { io["field"] = I->getMember()->getNameAsString(); io["fid"] = idOf(I->getMember()); } else if (I->isBaseInitializer()) io["base"] = ty(QualType(I->getBaseClass(), 0)); else if (I->isDelegatingInitializer()) io["delegating"] = true; io["written"] = I->isWritten(); io["e"] = expr(I->getInit()); inits.push_back(std::move(io)); } o["inits"] = std::move(inits); }
      else if (isa<CXXDestructorDecl>(M)) kind = "dtor";
      else if (M->isCopyAssignmentOperator()) o["special"] = "copy-assign"; else if (M->isMoveAssignmentOperator()) o["special"] = "move-assign";
      if (M->getParent()->isLambda()) kind = "lambda";
    }
    o["kind"] = kind;
    o["body"] = stmt(F->getBody());
    return J::Value(std::move(o));
  }

  J::Value record(const CXXRecordDecl* R) {
    J::Object o; o["qname"] = recName(R); o["tmpl"] = recTmpl(R); { const CXXRecordDecl* RP = R->getTemplateInstantiationPattern(); o["loc"] = loc((RP ? RP : R)->getLocation()); }
    J::Array fs; for (auto* F : R->fields()) { J::Object fo; fo["n"] = F->getNameAsString(); fo["fid"] = idOf(F); fo["t"] = ty(F->getType()); fo["ts"] = tySugar(F->getType()); fo["mutable"] = F->isMutable(); fs.push_back(std::move(fo)); } o["fields"] = std::move(fs);
    J::Array bs; for (auto& B : R->bases()) bs.push_back(ty(B.getType())); o["bases"] = std::move(bs);
    J::Object sm;
    sm["user_copy_ctor"] = R->hasUserDeclaredCopyConstructor(); sm["user_move_ctor"] = R->hasUserDeclaredMoveConstructor();
    sm["user_copy_assign"] = R->hasUserDeclaredCopyAssignment(); sm["user_move_assign"] = R->hasUserDeclaredMoveAssignment(); sm["user_dtor"] = R->hasUserDeclaredDestructor();
    o["special"] = std::move(sm);
    return J::Value(std::move(o));
  }

  J::Value apvalue(const APValue& V, QualType T, unsigned depth = 0) {
    if (V.isInt()) { auto I = V.getInt(); return I.isSigned() ? J::Value((int64_t)I.getSExtValue()) : J::Value((int64_t)I.getZExtValue()); }
    if (V.isFloat()) return J::Value(V.getFloat().convertToDouble());
    if (V.isArray()) { J::Array a; QualType ET; if (!T.isNull()) { if (const ArrayType* AT = C.getAsArrayType(T.getCanonicalType())) ET = AT->getElementType(); }
      unsigned n = V.getArraySize(), init = V.getArrayInitializedElts();
      for (unsigned i = 0; i < n; ++i) { if (i < init) a.push_back(apvalue(V.getArrayInitializedElt(i), ET, depth + 1)); else if (V.hasArrayFiller()) a.push_back(apvalue(V.getArrayFiller(), ET, depth + 1)); else a.push_back(nullptr); }
      return J::Value(std::move(a)); }
    return nullptr;
  }
};

struct Visitor : RecursiveASTVisitor<Visitor> {
  Exporter& X; J::Array fns, recs, globs; std::set<const Decl*> seenF, seenR, seenG; std::set<std::string> patAll, patCovered; std::map<std::string, std::string> patName;
  Visitor(Exporter& X): X(X) {}
  bool shouldVisitTemplateInstantiations() const { return true; }
  bool shouldVisitImplicitCode() const { return false; }
  bool VisitFunctionDecl(FunctionDecl* F) {
    if (!F->doesThisDeclarationHaveABody()) return true;
    const FunctionDecl* P = X.patternOf(F);
    if (!X.inRepoInclude(P->getLocation())) return true;
    std::string pl = X.loc(P->getLocation());
    if (F->isDependentContext()) { patAll.insert(pl); patName[pl] = X.qname(F); return true; }
    patAll.insert(pl); patName[pl] = X.qname(P); patCovered.insert(pl);
    if (!seenF.insert(F->getCanonicalDecl()).second) return true;
    if (F->isInvalidDecl()) return true;
    if (getenv("DSX_TRACE")) llvm::errs() << "FN " << X.qname(F) << " @ " << X.loc(F->getLocation()) << "\n";
    fns.push_back(X.function(F));
    return true;
  }
  bool VisitCXXRecordDecl(CXXRecordDecl* R) {
    if (!R->isThisDeclarationADefinition() || R->isDependentContext() || R->isLambda()) return true;
    const CXXRecordDecl* RP = R->getTemplateInstantiationPattern(); if (!RP) RP = R;
    if (!X.inRepoInclude(RP->getLocation())) return true;
    if (!seenR.insert(R->getCanonicalDecl()).second) return true;
    recs.push_back(X.record(R)); return true;
  }
  bool VisitEnumConstantDecl(EnumConstantDecl* D) {
    if (!X.inRepoInclude(D->getLocation())) return true;
    if (!seenG.insert(D->getCanonicalDecl()).second) return true;
    J::Object o; o["qname"] = X.qname(D); o["t"] = "enum"; o["loc"] = X.loc(D->getLocation()); o["const"] = true;
    o["value"] = (int64_t)D->getInitVal().getExtValue();
    globs.push_back(std::move(o)); return true;
  }
  bool VisitVarDecl(VarDecl* V) {
    if (!V->hasGlobalStorage() || V->isStaticLocal() || !V->hasInit() || V->getType()->isDependentType()) return true;
    if (!X.inRepoInclude(V->getLocation())) return true;
    if (!V->getType().isConstQualified() && !V->isConstexpr()) { /* allow non-const tables too (HLL tables are static double[]) */ }
    if (!V->getType()->isArrayType() && !V->getType()->isArithmeticType()) return true;
    if (!seenG.insert(V->getCanonicalDecl()).second) return true;
    J::Object o; o["qname"] = X.qname(V); o["t"] = X.ty(V->getType()); o["loc"] = X.loc(V->getLocation()); o["const"] = V->getType().isConstQualified();
    if (const APValue* AV = V->evaluateValue()) o["value"] = X.apvalue(*AV, V->getType()); else o["value"] = nullptr;
    globs.push_back(std::move(o)); return true;
  }
};

struct Cons : ASTConsumer {
  void HandleTranslationUnit(ASTContext& C) override {
    Exporter X(C); Visitor V(X); V.TraverseDecl(C.getTranslationUnitDecl());
    J::Object out; out["functions"] = std::move(V.fns); out["records"] = std::move(V.recs); out["globals"] = std::move(V.globs);
    J::Array unc; for (auto& p : V.patAll) if (!V.patCovered.count(p)) unc.push_back(J::Object{{"pat", p}, {"name", V.patName[p]}}); out["uncovered"] = std::move(unc);
    out["npatterns"] = (int64_t)V.patAll.size(); out["ncovered"] = (int64_t)V.patCovered.size();
    std::error_code EC; 
    if (OutFile == "-") { llvm::outs() << J::Value(std::move(out)) << "\n"; }
    else { llvm::raw_fd_ostream os(OutFile, EC); os << J::Value(std::move(out)) << "\n"; }
  }
};
struct Act : ASTFrontendAction { std::unique_ptr<ASTConsumer> CreateASTConsumer(CompilerInstance&, StringRef) override { return std::make_unique<Cons>(); } };
int main(int argc, const char** argv) {
  auto op = tooling::CommonOptionsParser::create(argc, argv, Cat);
  if (!op) { llvm::errs() << llvm::toString(op.takeError()); return 2; }
  tooling::ClangTool T(op->getCompilations(), op->getSourcePathList());
  return T.run(tooling::newFrontendActionFactory<Act>().get());
}
