#!/bin/sh
# Build the typed-AST exporter (offline; clang 14 + libclang-cpp only).
set -e
D=$(cd "$(dirname "$0")" && pwd)
OUT="$D/dsx"
if [ -x "$OUT" ] && [ "$OUT" -nt "$D/dsx.cc" ]; then exit 0; fi
clang++ $(llvm-config-14 --cxxflags) -fno-rtti -O1 "$D/dsx.cc" -o "$OUT.tmp" \
  /usr/lib/llvm-14/lib/libclang-cpp.so.14 /usr/lib/llvm-14/lib/libLLVM-14.so
mv "$OUT.tmp" "$OUT"
