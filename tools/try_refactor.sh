#!/bin/sh
# usage: try_refactor.sh <abs patch> [Cxx ...]   - applies a (behaviour-preserving) patch to a scratch worktree of /repo HEAD and runs
# the checks there (VERIF_REPO); prints every check that is not HELD. Used to measure false alarms; leaves /repo untouched.
P=$1; shift
W=$(mktemp -d /tmp/rf_XXXXXX); rmdir $W
git -C /repo worktree add --detach $W HEAD -q || exit 3
if ! git -C $W apply "$P" 2>/dev/null; then echo "PATCH DOES NOT APPLY: $P"; git -C /repo worktree remove --force $W; exit 4; fi
PROPS=${*:-C01 C02 C03 C04 C05 C06 C07 C08 C09 C10 C11 C12 C13 C14 C15 C16 C17 C18 C19 C20}
RC=0
for c in $PROPS; do
  OUT=$(VERIF_REPO=$W VERIF_NO_EVIDENCE=1 /verif/check $c 2>&1)
  if ! echo "$OUT" | tail -1 | grep -q "HELD"; then RC=1; echo "== $c: $(echo "$OUT" | tail -1)"; echo "$OUT" | grep -E "violated:|ANALYSIS-BROKEN" | head -6 | cut -c1-300; fi
done
git -C /repo worktree remove --force $W
[ $RC = 0 ] && echo "all HELD: $P"
exit $RC
