#!/usr/bin/env python3
"""Regenerates MANIFEST.json from the table below (kept valid at all times)."""
import json, os
V = os.path.dirname(os.path.dirname(os.path.abspath(__file__)))
TB = "Trusted: clang 14 front end and constant evaluator, tools/dsx exporter, the facts normaliser vlib/normalize.py, rules/*.py, reviewed spec/*.json tables. Zero-expected hazard lints (rules/hazard_lints.py: narrowed arguments, float limits min(), engine in loop, use after move, unsigned bounds, parallel copies, twin initialisers, stale cursors, narrow accumulate, swapped deallocation, unused parameters) run on every family with their reviewed instances in spec/hazards.json. Only instantiations present in drivers/ are analysed. "
CLAIMED = {
 "C09": ("other", "Static sibling-agreement rules over every serializer in the typed AST: exact bit-provenance interpretation of all 63 pack/unpack pairs (exhaustive over bits), header_size_bytes honoured by every byte writer. Structural necessary conditions of the round trip, decided for all inputs; observational equality of restored sketches is not decided.",
         "Not decided: equality of the restored sketch, continuing updates.", "static analysis: abstract interpretation (bit provenance) + AST shape rules over the template-instantiated clang AST", "section 5 C09, section 4 A4"),
 "C11": ("other", "Path-complete abstract interpretation of all 34 byte-level readers (polynomial cursor offsets vs. established size guarantees on every path, wrap extents) and flow-sensitive stream-state analysis of all stream readers: no read through the cursor is uncovered for an image of ANY length, every stream return is checked. This is the quantifier (every prefix length, every path) the unit tests cannot cover.",
         "Not decided: indexing inside decompression loops, arithmetic overflow of size computations, termination, leaks beyond the local form. Reviewed exceptions: spec/a1_exceptions.json.", "static analysis: structured abstract interpretation (bounded-cursor, stream typestate) over the template-instantiated clang AST", "section 5 C11, section 4 A1/A2"),
}
NA = {
 "C16": "total-weight conservation, heavy-item inclusion and unbiasedness are arithmetic/distributional invariants over runtime doubles and random slot choices; no clause is decidable from code shape (serializers/readers/lifecycle of VarOpt are covered under C09/C10/C11/C19)",
 "C17": "weights, monotone rank/quantile and tail accuracy are floating-point interpolation facts over runtime centroids; the one structural candidate (rank typing) was rejected because it would alarm on code where the property holds (DESIGN.md section 5, C17)",
 "C18": "c = min(k, W/w_max), floor/ceil sample sizes and proportional inclusion are numeric/distributional; no structural clause that is a necessary condition beyond bookkeeping the unit tests pin",
}
def main():
    exec(open(os.path.join(V, "tools", "manifest_table.py")).read(), globals())
    props = [json.loads(l) for l in open(os.path.join(V, "properties.jsonl"))]
    m = {"version": 1, "setup_cmd": "./tools/dsx/build.sh",
         "hooks": {"guard": "DATASKETCHES_VERIF", "enable": "none needed: the analysis reads the headers as they are; no hook code exists in /repo",
                   "baseline_off_cmd": "cmake --build /repo/_build -j16 && ctest --test-dir /repo/_build -j8 --timeout 900", "source_commits": [], "add_only": True},
         "engines": [{"name": "dsx+rules", "path": "check", "serves_properties": sorted(CLAIMED),
                      "kind_free_text": "custom static analysis: LibTooling typed-AST exporter over instantiation drivers + Python rule engines (abstract interpretation, dataflow, typestate, sibling cross-checks, constant-table evaluation)"}],
         "checks": [], "notes": "Static analysis only. Exit 0 held / 1 VIOLATION / 2 ANALYSIS-BROKEN. See DESIGN.md.", "not_applicable": []}
    for p in props:
        pid = p["id"]
        if pid in CLAIMED:
            lvl, text, notdec, tech, ref = CLAIMED[pid]
            m["checks"].append({"property_id": pid, "quick_cmd": "./check %s --tier quick" % pid, "thorough_cmd": "./check %s --tier thorough" % pid,
                                "evidence_file": "evidence/%s.json" % pid, "replay_cmd_template": "./check %s --replay {path}" % pid, "engine": "dsx+rules",
                                "level_claimed": {"category": lvl, "text": text, "design_ref": "DESIGN.md " + ref},
                                "level_note": TB + notdec, "technique": tech})
        else:
            m["not_applicable"].append({"property_id": pid, "reason": NA.get(pid, "not yet claimed: static check under construction (see DESIGN.md section 5 for the planned clauses)")})
    json.dump(m, open(os.path.join(V, "MANIFEST.json"), "w"), indent=1)
    print("claimed:", sorted(CLAIMED), "n/a:", [x["property_id"] for x in m["not_applicable"]])
if __name__ == "__main__":
    main()
