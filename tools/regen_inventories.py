#!/usr/bin/env python3
"""Re-derive the texts / identities stored in spec/validators.json and spec/triggers.json from the CURRENT tree, keeping the
reviewed key sets.  Run only on a reviewed (unchanged) /repo after a change of the facts normaliser or of canon_env: the
inventories are keyed by canonical text, so a change of canonical form needs the stored texts rewritten.  Counts per reader must
not change (printed when they do).  Not run by any check."""
import json, os, sys
V = os.path.dirname(os.path.dirname(os.path.abspath(__file__)))
sys.path.insert(0, V); sys.path.insert(0, os.path.join(V, "rules"))
from vlib import core
import triggers, validators
F = core.Facts("quick")
vi = validators.inventory(F)
p = os.path.join(V, "spec", "validators.json")
vs = json.load(open(p))
for k in list(vs["readers"]):
    if k in vi:
        if len(vi[k]["items"]) != len(vs["readers"][k]):
            print("COUNT", k, len(vs["readers"][k]), "->", len(vi[k]["items"]))
        if sorted(vi[k]["items"]) != vs["readers"][k]:
            print("changed", k)
        vs["readers"][k] = sorted(vi[k]["items"])
        vs.setdefault("wide", {})[k] = vi[k]["wide"]
    else:
        print("READER GONE", k)
for k in vi:
    if k not in vs["readers"]:
        print("reader added", k, len(vi[k]["items"]))
        vs["readers"][k] = sorted(vi[k]["items"])
        vs.setdefault("wide", {})[k] = vi[k]["wide"]
json.dump(vs, open(p, "w"), indent=1)
inv = triggers.inventory(F)
p = os.path.join(V, "spec", "triggers.json")
sp = json.load(open(p))
for k in list(sp["triggers"]):
    if k in inv:
        n = {"lits": inv[k]["lits"], "text": inv[k]["text"]}
        if n != sp["triggers"][k]:
            print("trigger changed", k, "|", sp["triggers"][k]["text"], "->", n["text"])
        sp["triggers"][k] = n
    else:
        print("TRIGGER GONE", k)
for k in inv:
    if k not in sp["triggers"]:
        if "--all" in sys.argv:
            sp["triggers"][k] = {"lits": inv[k]["lits"], "text": inv[k]["text"]}
            print("call site added:", k, inv[k]["text"])
        else:
            print("new call site (not added; pass --all after review):", k, inv[k]["text"])
if "--all" in sys.argv:
    for k in list(sp["triggers"]):
        if k not in inv:
            del sp["triggers"][k]
sp["names"] = sorted(triggers.name_universe(F))
json.dump(sp, open(p, "w"), indent=1)
