#!/usr/bin/env python3
"""Re-derive spec/layouts.json hash_digests / hash_literals from the CURRENT tree (run only on a reviewed, unchanged /repo after a
change of the facts normaliser: the digests are taken over the normalised AST).  Prints what changed.  Not run by any check."""
import json, os, sys
V = os.path.dirname(os.path.dirname(os.path.abspath(__file__)))
sys.path.insert(0, V); sys.path.insert(0, os.path.join(V, "rules"))
from vlib import core
from astu import functions_by
import layout_rules as L
F = core.Facts("quick")
p = os.path.join(V, "spec", "layouts.json")
sp = json.load(open(p))
fns = functions_by(F)
for name in sorted(sp.get("hash_digests", {})):
    cands = [f for f in fns.values() if f["qname"].split("<")[0].endswith(name)]
    if not cands:
        print("NOT FOUND", name)
        continue
    got, n = L.ast_digest(cands[0])
    if got != sp["hash_digests"][name]:
        print("digest changed", name, sp["hash_digests"][name], "->", got)
        sp["hash_digests"][name] = got
for name in sorted(sp.get("hash_literals", {})):
    cands = [f for f in fns.values() if f["qname"].split("<")[0].endswith(name) or f["qname"] == name]
    if not cands:
        print("NOT FOUND", name)
        continue
    got = L.hash_literals(cands[0])
    if got != sp["hash_literals"][name]:
        print("literals changed", name, [x for x in sp["hash_literals"][name] if x not in got], "->", [x for x in got if x not in sp["hash_literals"][name]])
        sp["hash_literals"][name] = got
# literals of the CPC low-level codec (the compressed stream is a published cross-language format)
sp.setdefault("codec_literals", {})
for name in L.CODEC_FUNCS:
    cands = L._hash_fn_cands(fns, name)
    if not cands:
        print("NOT FOUND", name)
        continue
    got = L.codec_literal_set(cands[0], {k: v for k, v in fns.items() if str(k).startswith("cpc/")})
    if got != sp["codec_literals"].get(name):
        print("codec literals changed", name, sp["codec_literals"].get(name), "->", got)
        sp["codec_literals"][name] = got
json.dump(sp, open(p, "w"), indent=1)
