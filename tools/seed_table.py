#!/usr/bin/env python3
"""Regenerates the seeded-change table of DESIGN.md (between the SEED-TABLE markers) from seeded/*/meta.json."""
import glob, json, os, re
V = os.path.dirname(os.path.dirname(os.path.abspath(__file__)))
rows = []
for m in sorted(glob.glob(os.path.join(V, "seeded", "*", "meta.json"))):
    d = json.load(open(m))
    rules = sorted({x.split("|")[0] for v in d.get("caught_detail", {}).values() for x in v if "|" in x})
    summ = re.sub(r"\s+", " ", d.get("summary") or "").replace("|", "/")
    if len(summ) > 150:
        summ = summ[:147] + "..."
    rows.append("| %s | %s | %s | %s |" % (d["id"], summ, ", ".join(d.get("caught_by", [])) or "**none**", ", ".join(rules) or "-"))
tbl = "| Seed | Change (breaks the property, compiles, full suite passes) | Caught by | Rule(s) reporting |\n|---|---|---|---|\n" + "\n".join(rows)
p = os.path.join(V, "DESIGN.md")
s = open(p).read()
a, b = "<!-- SEED-TABLE-BEGIN -->", "<!-- SEED-TABLE-END -->"
if a in s:
    s = s[:s.index(a) + len(a)] + "\n" + tbl + "\n" + s[s.index(b):]
    open(p, "w").write(s)
    print("updated", len(rows), "rows")
else:
    print(tbl)
