#!/usr/bin/env python3
"""One-off generator of spec/layouts.json from a REVIEWED tree (compared by hand with the layout comments in the headers
and the Java family table, DESIGN.md Appendix B). Not run by any check."""
import json, os, sys
V = os.path.dirname(os.path.dirname(os.path.abspath(__file__)))
sys.path.insert(0, V); sys.path.insert(0, os.path.join(V, "rules"))
from vlib import core
import layout_rules as L
from astu import functions_by
F = core.Facts("quick")
fns = functions_by(F)
hash_fns = ["MurmurHash3_x64_128", "fmix64", "compute_seed_hash", "XXHash64::hash", "XXHash64::processSingle", "XXHash64::process", "compute_hash", "coupon", "row_col_from_two_hashes", "canonical_double"]
hl = {}
for name in hash_fns:
    c = [f for f in fns.values() if f["qname"].split("<")[0].endswith(name) or f["qname"] == name]
    if c:
        hl[name] = L.hash_literals(c[0])
    else:
        print("hash fn not found:", name)
dispatch = [
 {"record": "compact_theta_sketch_alloc", "function": "deserialize", "param": "basic_istream", "kind": "switch", "on": "serial_version", "what": "serial versions", "values": [1, 2, 3, 4]},
 {"record": "compact_theta_sketch_parser", "function": "parse", "param": None, "kind": "switch", "on": "serial_version", "what": "serial versions", "values": [1, 2, 3, 4]},
 {"record": "kll_sketch", "function": "check_serial_version", "param": None, "kind": "compare", "on": "serial_version", "what": "serial versions", "values": [1, 2]},
 {"record": "compact_tuple_sketch", "function": "deserialize", "param": "basic_istream", "kind": "compare", "on": "serial_version", "what": "serial versions", "values": [1, 3]},
 {"record": "compact_tuple_sketch", "function": "deserialize", "param": "const void", "kind": "compare", "on": "serial_version", "what": "serial versions", "values": [1, 3]},
 {"record": "compact_tuple_sketch", "function": "deserialize", "param": "basic_istream", "kind": "compare", "on": "type", "what": "sketch types", "values": [1, 5]},
 {"record": "compact_tuple_sketch", "function": "deserialize", "param": "const void", "kind": "compare", "on": "type", "what": "sketch types", "values": [1, 5]},
 {"record": "quantiles_sketch", "function": "check_serial_version", "param": None, "kind": "compare", "on": "serial_version", "what": "serial versions", "values": [1, 2, 3]},
 {"record": "count_min_sketch", "function": "check_header_validity", "param": None, "kind": "switch", "on": "sw", "what": "header combinations", "values": [138, 139]},
 {"record": "tdigest", "function": "deserialize_compat", "param": "basic_istream", "kind": "compare", "on": "type", "what": "reference-implementation types", "values": [1, 2]},
 {"record": "tdigest", "function": "deserialize_compat", "param": "const void", "kind": "compare", "on": "type", "what": "reference-implementation types", "values": [1, 2]},
 {"record": "req_sketch", "function": "check_serial_version", "param": None, "kind": "compare", "on": "serial_version", "what": "serial versions", "values": [1]},
 {"record": "frequent_items_sketch", "function": "check_serial_version", "param": None, "kind": "compare", "on": "serial_version", "what": "serial versions", "values": [1]},
]
hd = {}
for name in L.HASH_DIGEST_FUNCS:
    c = [f for f in fns.values() if f["qname"].split("<")[0].endswith(name)]
    if c:
        hd[name] = L.ast_digest(c[0])[0]
    else:
        print("digest fn not found:", name)
spec = {"hash_digests": hd, "flag_terms": L.flag_terms_table(F), "_comment": "C10 spec: documented preamble constants, writer prefixes (width, constant) and accepted legacy versions, frozen from the reviewed tree; published hash literals.",
        "constants": L.layout_constants(F), "writer_prefixes": L.writer_prefixes(F), "dispatch": dispatch, "hash_literals": hl}
json.dump(spec, open(os.path.join(V, "spec", "layouts.json"), "w"), indent=1, sort_keys=True)
print(len(spec["constants"]), "constants;", len(spec["writer_prefixes"]), "writers;", len(hl), "hash functions")
