#!/bin/sh
# usage: rf.sh <name under /tmp/rfw> Cxx [args]  - run one check against a persistent scratch worktree (false-alarm experiments)
W=${RFW:-/tmp/rfw}/$1; shift
VERIF_CACHE_KEEP=${VERIF_CACHE_KEEP:-80} VERIF_REPO=$W VERIF_NO_EVIDENCE=1 /verif/check "$@"
