#!/usr/bin/env python3
"""Re-derive spec/layouts.json flag_terms from the CURRENT tree (run only on a reviewed, unchanged /repo).  Not run by any check."""
import json, os, sys
V = os.path.dirname(os.path.dirname(os.path.abspath(__file__)))
sys.path.insert(0, V); sys.path.insert(0, os.path.join(V, "rules"))
from vlib import core
import layout_rules as L
F = core.Facts("quick")
p = os.path.join(V, "spec", "layouts.json")
sp = json.load(open(p))
new = L.flag_terms_table(F)
old = sp.get("flag_terms", {})
for k in sorted(set(old) | set(new)):
    if old.get(k) != new.get(k):
        print("changed", k, old.get(k), "->", new.get(k))
sp["flag_terms"] = new
json.dump(sp, open(p, "w"), indent=1)
