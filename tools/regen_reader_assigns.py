#!/usr/bin/env python3
"""(Re)build spec/reader_assigns.json from the CURRENT tree - run only on a reviewed, unchanged /repo.  Not run by any check."""
import json, os, sys
V = os.path.dirname(os.path.dirname(os.path.abspath(__file__)))
sys.path.insert(0, V); sys.path.insert(0, os.path.join(V, "rules"))
from vlib import core
import reader_assigns
F = core.Facts("quick")
inv = reader_assigns.inventory(F)
p = os.path.join(V, "spec", "reader_assigns.json")
old = json.load(open(p))["assigns"] if os.path.exists(p) else {}
new = {}
for k, v in sorted(inv.items()):
    new[k] = {"lits": v["lits"], "text": v["text"], "value": v["value"], "file": str(v["loc"] or "").split(":")[0]}
    if k in old and old[k].get("text") != v["text"]:
        print("changed", k, "|", old[k].get("text"), "->", v["text"])
    if k not in old:
        print("added", k, "|", v["text"], "| =", v["value"])
for k in old:
    if k not in new:
        print("GONE", k)
json.dump({"_comment": "conditional assignments of restored state in readers (rules/reader_assigns.py), frozen from the reviewed tree", "assigns": new}, open(p, "w"), indent=1)
print(len(new), "rows")
