#!/bin/sh
# usage: verify_seed.sh <seed-dir> <workdir>
# Confirms a seeded change independently: applies patch.diff to a scratch worktree of /repo HEAD, builds the full test
# suite, runs ctest, builds demo.cpp against the clean and the mutated tree and runs both.  Writes <seed-dir>/verify.json.
S=$1; W=$2
set -u
rm -rf "$W"; git -C /repo worktree add --detach "$W" HEAD >/dev/null 2>&1 || { echo "worktree failed"; exit 3; }
INC=""; for d in common theta tuple hll cpc kll req quantiles fi count sampling tdigest filters density; do INC="$INC -I$W/%s/include"; done
INCM=$(for d in common theta tuple hll cpc kll req quantiles fi count sampling tdigest filters density; do printf -- "-I$W/%s/include " $d; done)
SAN=""; grep -q "fsanitize" "$S/meta.json" 2>/dev/null && SAN="-fsanitize=address,undefined"
# clean demo
g++ -std=c++11 -O1 -g $SAN $INCM "$S/demo.cpp" -o "$W/demo_clean" 2>"$W/demo_clean.err"; ( cd "$W" && timeout 600 ./demo_clean >"$W/demo_clean.out" 2>&1 ); RC_CLEAN=$?
# apply
if ! git -C "$W" apply "$S/patch.diff" 2>"$W/apply.err"; then APPLY=fail; else APPLY=ok; fi
g++ -std=c++11 -O1 -g $SAN $INCM "$S/demo.cpp" -o "$W/demo_mut" 2>"$W/demo_mut.err"; ( cd "$W" && timeout 600 ./demo_mut >"$W/demo_mut.out" 2>&1 ); RC_MUT=$?
# tests with the change
cmake -G Ninja -S "$W" -B "$W/_build" -DCMAKE_BUILD_TYPE=RelWithDebInfo -DCMAKE_CXX_FLAGS=-Wno-error -DFETCHCONTENT_TRY_FIND_PACKAGE_MODE=ALWAYS -DFETCHCONTENT_UPDATES_DISCONNECTED=ON >"$W/cmake.log" 2>&1
cmake --build "$W/_build" -j${JOBS:-8} >"$W/build.log" 2>&1; RC_BUILD=$?
ctest --test-dir "$W/_build" -j${JOBS:-8} --timeout 900 >"$W/ctest.log" 2>&1; RC_CTEST=$?
SUMMARY=$(grep "tests passed" "$W/ctest.log" | head -1)
python3 - "$S" "$APPLY" "$RC_CLEAN" "$RC_MUT" "$RC_BUILD" "$RC_CTEST" "$SUMMARY" "$W" <<'PY'
import json,sys
s,apply,rc_clean,rc_mut,rc_build,rc_ctest,summary,w=sys.argv[1:9]
tail=lambda p: open(p,errors='replace').read()[-400:] if __import__('os').path.exists(p) else ''
v={"patch_applies":apply=="ok","demo_clean_exit":int(rc_clean),"demo_mutated_exit":int(rc_mut),"build_exit":int(rc_build),"ctest_exit":int(rc_ctest),"ctest_summary":summary,
   "demo_mutated_output_tail":tail(w+"/demo_mut.out"),"confirmed":apply=="ok" and int(rc_clean)==0 and int(rc_mut)!=0 and int(rc_build)==0 and int(rc_ctest)==0}
json.dump(v,open(s+"/verify.json","w"),indent=1)
print(s, "CONFIRMED" if v["confirmed"] else "NOT CONFIRMED", {k:v[k] for k in ("patch_applies","demo_clean_exit","demo_mutated_exit","build_exit","ctest_exit","ctest_summary")})
PY
git -C /repo worktree remove --force "$W" >/dev/null 2>&1; rm -rf "$W"
