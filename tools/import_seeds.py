#!/usr/bin/env python3
"""Imports independently produced, CONFIRMED seeded changes (verify.json written by tools/verify_seed.sh) into
/verif/seeded/<id>/ and computes which checks catch which change (on a scratch copy of /repo's headers)."""
import glob, json, os, shutil, sys
V = os.path.dirname(os.path.dirname(os.path.abspath(__file__)))
sys.path.insert(0, V); sys.path.insert(0, os.path.join(V, "rules"))
from vlib import core, selftest

src_root = sys.argv[1] if len(sys.argv) > 1 else "/root/seeds-in"
rnd = sys.argv[2] if len(sys.argv) > 2 else "r1"
claimed = [c["property_id"] for c in json.load(open(os.path.join(V, "MANIFEST.json")))["checks"]]
for d in sorted(glob.glob(os.path.join(src_root, "C*", "m*"))):
    vf = os.path.join(d, "verify.json")
    if not os.path.exists(vf):
        print("skip (not verified yet):", d); continue
    ver = json.load(open(vf))
    if not ver.get("confirmed"):
        print("skip (NOT confirmed):", d, ver); continue
    meta = json.load(open(os.path.join(d, "meta.json")))
    pid = meta.get("property") or d.split("/")[-2]
    sid = "%s-%s-%s" % (pid, rnd, os.path.basename(d))
    dst = os.path.join(V, "seeded", sid)
    os.makedirs(dst, exist_ok=True)
    shutil.copy(os.path.join(d, "patch.diff"), dst)
    shutil.copy(os.path.join(d, "demo.cpp"), dst)
    caught = {}
    sc = selftest.scratch_copy(core.REPO)
    try:
        ok, msg = selftest.apply_patch(sc, os.path.join(dst, "patch.diff"))
        if not ok:
            print("patch does not apply to current /repo headers:", sid, msg); 
        else:
            for c in claimed:
                try:
                    viol = selftest.run_property(c, sc)
                except Exception as e:
                    caught[c] = ["ANALYSIS-BROKEN: %s" % str(e)[:120]]
                    continue
                if viol:
                    caught[c] = sorted({"%s|%s" % (o["rule"], o["key"]) for o in viol})[:5]
    finally:
        shutil.rmtree(sc, ignore_errors=True)
    out = {
        "id": sid, "property": pid, "origin": "independent sub-agent given only the property text and a scratch worktree (round %s)" % rnd,
        "summary": meta.get("summary"), "needs": meta.get("needs"), "why_tests_pass": meta.get("why_tests_pass"),
        "demo_build": meta.get("demo_build"),
        "confirmed_by_us": {"how": "tools/verify_seed.sh: scratch worktree of /repo HEAD, patch applied, full suite built and run with ctest, demo built and run against clean and changed headers",
                            "patch_applies": ver["patch_applies"], "ctest": ver["ctest_summary"], "demo_exit_clean": ver["demo_clean_exit"], "demo_exit_changed": ver["demo_mutated_exit"],
                            "demo_output_tail": ver.get("demo_mutated_output_tail", "")[-300:]},
        "caught_by": sorted(k for k, v in caught.items() if v and not str(v[0]).startswith("ANALYSIS")),
        "caught_detail": caught,
    }
    json.dump(out, open(os.path.join(dst, "meta.json"), "w"), indent=1)
    print(sid, "caught by", out["caught_by"] or "NOTHING")
