#!/bin/sh
# usage: try_seed.sh <patch.diff> <Cxx> [<Cxx>...]  : apply a seeded change to /repo, run the checks, undo it
P=$1; shift
git -C /repo diff --quiet || { echo "/repo not clean"; exit 3; }
git -C /repo apply "$P" || { echo "patch does not apply"; exit 3; }
for c in "$@"; do
  /verif/check $c > /tmp/try_seed.$$ 2>&1; rc=$?
  echo "== $c exit=$rc"; grep -E "^(VIOLATION|ANALYSIS-BROKEN|  violated|      )" /tmp/try_seed.$$ | head -12
done
rm -f /tmp/try_seed.$$
git -C /repo checkout -- .
