#!/usr/bin/env python3
"""(Re)build spec/checkers.json from the CURRENT tree - run only on a reviewed, unchanged /repo.  Not run by any check."""
import json, os, sys
V = os.path.dirname(os.path.dirname(os.path.abspath(__file__)))
sys.path.insert(0, V); sys.path.insert(0, os.path.join(V, "rules"))
from vlib import core
import validators
F = core.Facts("quick")
inv = validators.checker_inventory(F)
p = os.path.join(V, "spec", "checkers.json")
old = json.load(open(p))["checkers"] if os.path.exists(p) else {}
new = {k: {"items": v["items"], "file": v["file"]} for k, v in sorted(inv.items())}
for k in new:
    if k not in old:
        print("added", k, new[k]["items"])
    elif old[k]["items"] != new[k]["items"]:
        print("changed", k, old[k]["items"], "->", new[k]["items"])
for k in old:
    if k not in new:
        print("GONE", k)
json.dump({"_comment": "guards of the argument / state checkers (functions that are plain lists of throwing guards), parameters by position (rules/validators.checker_inventory)", "checkers": new}, open(p, "w"), indent=1)
print(len(new), "checkers,", sum(len(v["items"]) for v in new.values()), "guards")
