#!/usr/bin/env python3
"""Recompute the rename-invariant identities (`on_id`) of the dispatched fields in spec/layouts.json -> dispatch from the
reviewed tree, using the source-level name recorded in `on` (and `via`: the helper the value is passed to).  Run only on a
reviewed /repo after a change of the identity scheme (triggers.idc / flat_env).  Not run by any check."""
import json, os, sys
V = os.path.dirname(os.path.dirname(os.path.abspath(__file__)))
sys.path.insert(0, V); sys.path.insert(0, os.path.join(V, "rules"))
from vlib import core
import triggers
from astu import functions_by, walk
F = core.Facts("quick")
fns = functions_by(F)
p = os.path.join(V, "spec", "layouts.json")
sp = json.load(open(p))


def ident(e, env):
    i, k = [], []
    triggers.idc(e, env, i, k)
    return {"ids": [str(x) for x in i if x], "consts": sorted(k, key=lambda x: (str(type(x)), x))}


for ent in sp["dispatch"]:
    rect, name = ent["record"], ent["function"]
    cands = [f for f in fns.values() if (f.get("rect") or "") == "datasketches::" + rect and f["name"] == name and (ent.get("param") is None or (f["params"] and ent["param"] in f["params"][0]["t"]))]
    assert cands, ent
    fn = cands[0]
    env = triggers.flat_env(fn)
    if ent.get("via"):
        calls = []
        walk(fn["body"], lambda x: calls.append(x) if x.get("k") == "Call" and x.get("cname") == ent["via"] else None)
        assert calls, ent
        cal = [f for f in fns.values() if f["pat"] == calls[0].get("cpat")][0]
        pidx = [i for i, pm in enumerate(cal["params"]) if pm["n"] == ent["on"]]
        new = ident(calls[0]["args"][pidx[0]], env)
    else:
        refs = []
        walk(fn["body"], lambda x: refs.append(x) if x.get("k") == "Ref" and x.get("n") == ent["on"] else None)
        assert refs, ent
        new = ident(refs[0], env)
    if new != ent.get("on_id"):
        print("on_id changed:", rect, name, ent.get("on_id"), "->", new)
    ent["on_id"] = new
json.dump(sp, open(p, "w"), indent=1, sort_keys=True)
