#!/bin/sh
# run every check against every persistent scratch worktree under /tmp/rfw (false-alarm experiment); summary on stdout
mkdir -p /root/rf_out; rm -f /root/rf_out/*.out
ls ${RFW:-/tmp/rfw} | xargs -P 6 -I{} sh -c 'for c in C01 C02 C03 C04 C05 C06 C07 C08 C09 C10 C11 C12 C13 C14 C15 C16 C17 C18 C19 C20; do OUT=$(/verif/tools/rf.sh {} $c 2>&1); if ! echo "$OUT" | tail -1 | grep -q HELD; then echo "== $c: $(echo "$OUT" | tail -1)"; echo "$OUT" | grep -E "violated:|ANALYSIS-BROKEN" | head -8 | cut -c1-260; fi; done > /root/rf_out/{}.out 2>&1'
for f in /root/rf_out/*.out; do echo "### $(basename $f .out): $(grep -c '^==' $f) non-held"; cat $f; done
