#!/usr/bin/env python3
"""Snapshot of the internal names of the REVIEWED tree (spec/names.json), the reference of the rename restorer vlib/renames.py.
Run only on the reviewed, unchanged /repo."""
import json
import os
import sys
V = os.path.dirname(os.path.dirname(os.path.abspath(__file__)))
sys.path.insert(0, V)
os.environ["VERIF_NO_RENAMES"] = "1"
from vlib import core, renames
F = core.Facts("quick")
datas = []
for d in F.drivers:
    with open(os.path.join(F.dir, d + ".json")) as f:
        datas.append(json.load(f))
snap = renames.snapshot(datas)
json.dump(snap, open(renames.SPEC, "w"), indent=0, sort_keys=True)
print("%d classes, %d function groups, %d functions" % (len(snap["records"]), len(snap["functions"]), sum(len(v) for v in snap["functions"].values())))
