# extra CLAIMED entries are appended here as checks come online
