"""C11 truncated/corrupted images are rejected safely (DESIGN.md section 5 C11; A1, A2)."""
import json
import os
import c11_rules
import validators
import reader_extra
import alloc_bounds
import field_validation
from vlib.core import VERIF


def run(facts, tier):
    exc = json.load(open(os.path.join(VERIF, "spec", "a1_exceptions.json")))
    exc = {k: v for k, v in exc.items() if not k.startswith("_")}
    obs, rules = [], []
    o, armed = c11_rules.a1_obligations(facts.light(), exc)
    obs += o
    n = len([x for x in o if x["status"] != "info"])
    rules.append({"rule": "a1 bounded cursor", "instances": n, "min": 230, "functions": armed,
                  "text": "every read from the caller's buffer (copy_from_mem, memcpy, index, delegated capacity) is covered on every path by an established size guarantee"})
    rules.append({"rule": "a1 armed readers", "instances": len(armed), "min": 34, "text": "byte-level readers analysed"})
    o, armed2 = c11_rules.a2_obligations(facts.light())
    obs += o
    rules.append({"rule": "a2 stream final check", "instances": len(o), "min": 31, "functions": armed2,
                  "text": "every stream reader tests the stream state after its last read on every returning path"})
    o = validators.checker_obligations(facts)
    obs += o
    rules.append({"rule": "checker functions", "instances": len(o), "min": 40,
                  "text": "functions that are plain lists of throwing guards (check_*, validate_*, guarded constructors) reject exactly the reviewed ranges: operators and constants of every guard (spec/checkers.json)"})
    o = validators.obligations(facts)
    obs += o
    rules.append({"rule": "a3 validators", "instances": len(o), "min": 283,
                  "text": "every reader keeps the validations of image fields (check_* calls and inline throw guards) it performs on the reviewed tree"})
    o = reader_extra.registration_order(facts)
    obs += o
    rules.append({"rule": "reader.registration", "instances": len(o), "min": 16,
                  "text": "items a serde call constructs into a raw buffer are registered with the owner's deleter (or repackaged / destroyed in place) before any later input-dependent rejection can throw"})
    o = alloc_bounds.obligations(facts)
    obs += o
    rules.append({"rule": "reader.unbounded-allocation", "instances": len(o), "min": 60,
                  "text": "an image value wider than 16 bits (or a power of two of an image exponent) is validated, or compared with the buffer length, before it sizes an allocation - stream and byte readers"})
    o = reader_extra.narrow_image_arith(facts)
    obs += o
    rules.append({"rule": "narrow image arithmetic", "instances": len(o), "min": 1,
                  "text": "no 32-bit image field is shifted / multiplied in 32 bits before a size check or allocation (the wrapped value passes the check while the 64-bit capacity does not)"})
    o = field_validation.obligations(facts)
    obs += o
    rules.append({"rule": "reader.field-validated", "instances": len([x for x in o if x["status"] != "info"]), "min": 180,
                  "text": "every value a reader takes from the image is validated before the object is built (throwing guard, check_* call, validating callee, or a validated derived value) or is a reviewed free field (spec/fields_free.json, one reason each)"})
    o = reader_extra.decoder_bounds(facts)
    obs += o
    rules.append({"rule": "reader.decoder-bounds", "instances": len(o), "min": 2,
                  "text": "CPC decompression compares the word index with the number of compressed words before each word is read, and a decoded row with k before it indexes the window"})
    o = reader_extra.serde_string_guard(facts)
    obs += o
    rules.append({"rule": "reader.serde-string", "instances": len(o), "min": 2,
                  "text": "serde<std::string>::deserialize(bytes): each read through the cursor is preceded in its iteration by the capacity test for exactly that many bytes"})
    return {
        "level": "other",
        "rules": rules,
        "obligations": obs,
        "explanation": "Path-complete abstract interpretation of every byte-level reader (exact polynomial cursor offsets vs. established size guarantees, validator summaries, counted loops) and flow-sensitive stream-state analysis of every stream reader, over the typed AST of the current tree. Decides: no read through the cursor is uncovered on any path, for images of every length; every stream return is checked. Does not decide: indexing inside decompression loops, arithmetic overflow of size computations, termination.",
        "assumptions": ["all library code is structured (no goto): structured interpretation is path-complete", "symbols are unsigned counts (coefficient-sign test is sufficient)",
                        "reviewed exceptions in spec/a1_exceptions.json", "user serde code out of scope"],
    }
