"""C02 Theta set operations (DESIGN.md section 5 C02): structural clauses."""
import theta_rules as T
import cowrite
import generic_lints
import hazard_lints
import c19_rules


def run(facts, tier):
    obs, rules = [], []
    for name, f, mn, text in (
        ("early stops", T.early_breaks, 5, "ordered-only shortcuts (early break, sort-based difference) are guarded by is_ordered() of the very input they skip over"),
        ("screens", T.screens, 9, "every key-vs-theta comparison accepts on `<`"),
        ("theta writes", T.theta_writes, 5, "result theta is a min over input thetas"),
        ("pivot agreement", T.pivots, 2, "union result trimming: pivot index == theta index == retained count"),
        ("intersection emptiness", T.intersection_emptiness, 1, "the intersection becomes empty only on its own accumulated theta"),
        ("seed checks", T.seed_checks, 4, "seed hash mismatch throws before entries of an input are used"),
        ("inferred emptiness", T.inferred_emptiness, 4, "a result may be flagged empty because it has no entries only when theta == MAX (truth table over source flag, no entries, estimation mode): an estimation-mode result without entries is not empty"),
        ("result claims", T.result_claims, 4, "on every structured path to the result of union / intersection / A-not-B: the ordered flag implies sorted entries (truth assignments consistent with the path), and the union result passes the trim to the nominal size after being filled"),
        ("ordered flag", T.ordered_flag_validity, 3, "operands that claim is_ordered_ really are sorted: the compacting constructors sort whenever they set the flag for an unordered source"),
        ("table copies", lambda fa: [o for o in c19_rules.special_members(fa) if o["key"].startswith(("theta_update_sketch_base::", "theta_union_base::", "theta_intersection_base::"))], 20, "the hash table that union / intersection objects hold and copy carries every field (emptiness flag, theta, counters, sizes) into the copy: a copied operand or set-operation object behaves like the original"),
        ("compressed deltas", T.entry_bits_cover_all_deltas, 1, "the field width of compressed compact images covers every delta of the ordered hashes, the first one counted from zero (operands wrapped or restored from compressed images equal the originals)"),
        ("builder/reset", T.builder_reset, 2, "union reset re-reads theta after the table reset"),
        ("couplings", lambda fa: cowrite.obligations(fa, ['theta_union_base']), 2, "fields that every mutator updates together (counters, extremes, cached values) are still updated together"),
        ("reset completeness", lambda fa: c19_rules.reset_completeness(fa, ['theta_union_base','theta_union_alloc']), 2, "every field a mutator modifies is re-initialised by reset() (a reused object equals a fresh one); reviewed exceptions are configuration fields"),
        ("delegations", lambda fa: generic_lints.unconditional_delegations(fa, ('theta/', 'tuple/')), 2, "wrappers that only hand an operation to a member object still do so unconditionally (spec/delegations.json)"),
        ("tautologies", lambda fa: generic_lints.tautologies(fa, ('theta/', 'tuple/')), 2, "no comparison / assignment / min-max with two identical operands, no if-else with identical arms"),
        ("hazards", lambda fa: hazard_lints.hazards(fa, ('theta/', 'tuple/')), 2, "no 64-bit value silently narrowed at a call of a library function, no numeric_limits<floating>::min() as a lowest value, no random engine constructed inside a loop, no read of a moved-from parameter, no unguarded unsigned `x - c` loop bound (reviewed instances in spec/hazards.json)"),
        ("duplicate operands", lambda fa: generic_lints.duplicate_conjuncts(fa, ('theta/', 'tuple/')), 2, "no logical chain tests the same operand twice (copy-paste of the wrong peer)"),
    ):
        o = f(facts)
        obs += o
        rules.append({"rule": name, "instances": len([x for x in o if x["status"] != "info"]), "min": mn, "text": text})
    return {
        "level": "other", "rules": rules, "obligations": obs,
        "explanation": "Structural necessary conditions of the exact set expressions, on every path of union/intersection/A-not-B for the Theta and Tuple instantiations: early-stop and sort-merge shortcuts guarded by the right input's orderedness, strict screens, theta is a min, seed checks first, reset order. Does not decide set-algebra equality of results, order independence, Jaccard values.",
        "assumptions": ["anchors: fields theta_/union_theta_ of the theta/tuple records", "only instantiations present in drivers/ are analysed"],
    }
