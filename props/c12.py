"""C12 frequent items bounds bracket the truth (DESIGN.md section 5 C12): bookkeeping clauses."""
import json
import os
import a4_twin
from vlib.core import VERIF
import validators
import fi_rules as F
import cowrite
import generic_lints
import hazard_lints
import predicates
import twins
import triggers
import dead_reads
import c19_rules


def run(facts, tier):
    obs, rules = [], []
    for name, f, mn, text in (
        ("purge chain", F.purge_chain, 5, "the amount a purge subtracts is the amount returned up the chain and added to offset, on every path"),
        ("single-pass subtraction", F.single_pass_subtract, 2, "the reverse purge compares every visited slot with the purge amount exactly once (slots refilled by hash_delete hold entries that were already reduced)"),
        ("purge sample", F.purge_sample, 1, "the purge amount is the median of a sample of min(1024, num_active) ACTIVE counters (the sampling loop runs on the sample count, not over a fixed range of cells)"),
        ("map copies", lambda fa: [o for o in c19_rules.special_members(fa) if o["key"].startswith(("reverse_purge_hash_map::", "frequent_items_sketch::"))], 20, "copies and assignments of the counter map carry every field (sizes, counters, tables): a copied / assigned sketch has the error bound of its source"),
        ("bound algebra", F.bounds, 6, "lower/upper/estimate/maximum-error formulas; result filter pairing; descending order"),
        ("bookkeeping", F.bookkeeping, 5, "update order; merge adds offsets and the total computed before the replay; emptiness considers total weight"),
        ("probe displacement", F.probe_displacement, 1, "hash_delete measures displacement with a wrapping step counter"),
        ("reader dead-reads", lambda fa: [o for o in dead_reads.obligations(fa) if "frequent_items_sketch" in o["key"]], 10, "every field the frequent-items readers take from the image (total weight, offset, weights, items) reaches the restored sketch on every accepting path"),
        ("state table initialised", lambda fa: [o for o in c19_rules.full_init(fa) if o["key"].startswith("reverse_purge_hash_map")], 3, "the slot-state array of the hash map is initialised over its whole extent in constructors, copies and resize (phantom items otherwise)"),
        ("couplings", lambda fa: cowrite.obligations(fa, ['frequent_items_sketch', 'reverse_purge_hash_map']), 8, "fields that every mutator updates together (counters, extremes, cached values) are still updated together"),
        ("emptiness predicate support", lambda fa: predicates.obligations(fa, ['frequent_items_sketch']), 3, "the emptiness predicate still consults every field it depended on in the reviewed tree (spec/predicates.json)"),
        ("probe masks", F.probe_masks, 6, "every probe index is reduced with the mask of the current table size"),
        ("argument checkers", lambda fa: validators.checker_obligations(fa, ["fi"]), 4, "the argument / image checkers of the family reject exactly the reviewed ranges (spec/checkers.json)"),
        ("tautologies", lambda fa: generic_lints.tautologies(fa, ('fi/',)), 2, "no comparison / assignment / min-max with two identical operands, no if-else with identical arms"),
        ("serializer twins", lambda fa: [o for o in a4_twin.obligations(fa, set(json.load(open(os.path.join(VERIF, "spec", "twin_armed.json")))["armed"])) if "frequent_items" in o["key"]], 1, "stream and byte writers of the frequent-items sketch emit the same fields (a round trip through either restores the configured map sizes, so the published epsilon still holds)"),
        ("hazards", lambda fa: hazard_lints.hazards(fa, ('fi/',)), 2, "no 64-bit value silently narrowed at a call of a library function, no numeric_limits<floating>::min() as a lowest value, no random engine constructed inside a loop, no read of a moved-from parameter, no unguarded unsigned `x - c` loop bound (reviewed instances in spec/hazards.json)"),
        ("duplicate operands", lambda fa: generic_lints.duplicate_conjuncts(fa, ('fi/',)), 2, "no logical chain tests the same operand twice (copy-paste of the wrong peer)"),
        ("moves from lvalue operands", lambda fa: generic_lints.moves_from_lvalue_operands(fa, ['fi']), 1, "in the lvalue instantiation of a forwarding-reference operand nothing is std::move-d out of the operand (conditional_forward copies there): a sketch passed to be read keeps its items / summaries"),
        ("overload twins", lambda fa: twins.overload_twins(fa, ('fi/',)), 1, "const& and && overloads of one operation have identical bodies modulo std::move/forward"),
        ("structural triggers", lambda fa: triggers.obligations(fa, ['reverse_purge_hash_map']), 3, "the comparisons that decide when to resize / rebuild / compact / purge / promote keep their reviewed boundary (operator and constants)"),
    ):
        o = f(facts)
        obs += o
        rules.append({"rule": name, "instances": len([x for x in o if x["status"] != "info"]), "min": mn, "text": text})
    return {
        "level": "other", "rules": rules, "obligations": obs,
        "explanation": "Dataflow and shape rules over the frequent-items code: the purge amount is conserved through purge -> resize_or_purge_if_needed -> adjust_or_insert -> offset on every call site, the bound formulas satisfy upper - lower = maximum error by construction, the result filter pairs each error type with the right bound, merge and update bookkeeping, displacement counting in hash_delete. Does not decide the bracket inequality for arbitrary streams or the epsilon bound.",
        "assumptions": ["only instantiations present in drivers/ are analysed"],
    }
