"""C14 count-min never under-estimates and is linear under merge (DESIGN.md section 5 C14): structural clauses."""
import cm_rules as M
import cowrite
import generic_lints
import hazard_lints
import a4_twin
import io_words
import json, os
from vlib.core import VERIF
import predicates


def run(facts, tier):
    obs, rules = [], []
    for name, f, mn, text in (
        ("addressing", M.addressing, 7, "one cell-addressing function; modulo index; min over rows; each cell += weight once; bound formulas"),
        ("overload siblings", M.overload_siblings, 8, "typed overloads of update and the queries hand the same bytes to the core"),
        ("merge", M.merge_rules, 3, "self merge refused; configuration (incl. full seed) compared; cell-wise sum; totals added"),
        ("configuration guard", M.config_guard, 1, "size limit evaluated without 32-bit wrap-around"),
        ("couplings", lambda fa: cowrite.obligations(fa, ['count_min_sketch']), 4, "fields that every mutator updates together (counters, extremes, cached values) are still updated together"),
        ("emptiness predicate support", lambda fa: predicates.obligations(fa, ['count_min_sketch']), 1, "the emptiness predicate still consults every field it depended on in the reviewed tree (spec/predicates.json)"),
        ("serializer twins", lambda fa: [o for o in a4_twin.obligations(fa, set(json.load(open(os.path.join(VERIF, "spec", "twin_armed.json")))["armed"])) if "count_min" in o["key"]] + [o for o in io_words.obligations(fa, {k: v for k, v in json.load(open(os.path.join(VERIF, "spec", "io_words_exceptions.json"))).items() if not k.startswith("_")}) if "count_min" in o["key"]], 3, "stream and byte writers of the count-min sketch are twins and every layout they emit is one the readers consume (cells are not shifted for weight types narrower than 8 bytes)"),
        ("tautologies", lambda fa: generic_lints.tautologies(fa, ('count/',)), 2, "no comparison / assignment / min-max with two identical operands, no if-else with identical arms"),
        ("hazards", lambda fa: hazard_lints.hazards(fa, ('count/',)), 2, "no 64-bit value silently narrowed at a call of a library function, no numeric_limits<floating>::min() as a lowest value, no random engine constructed inside a loop, no read of a moved-from parameter, no unguarded unsigned `x - c` loop bound (reviewed instances in spec/hazards.json)"),
        ("duplicate operands", lambda fa: generic_lints.duplicate_conjuncts(fa, ('count/',)), 2, "no logical chain tests the same operand twice (copy-paste of the wrong peer)"),
        ("state-writing shortcuts", lambda fa: generic_lints.state_writing_shortcuts(fa, ['count_min_sketch']), 1, "no merge / update branch writes fields and returns early past the steps all other paths run (compaction loop, totals, cached counts); one reviewed exception"),
        ("forwarding peers", lambda fa: generic_lints.forwarding_peers(fa, ('count/',)), 8, "one-statement typed overloads forward to an overload of their own name, never to the head of a sibling family (wrong peer)"),
    ):
        o = f(facts)
        obs += o
        rules.append({"rule": name, "instances": len([x for x in o if x["status"] != "info"]), "min": mn, "text": text})
    return {
        "level": "other", "rules": rules, "obligations": obs,
        "explanation": "Shape and sibling rules over the count-min code in the typed AST: update and every query address cells through the same get_hashes (row * buckets + hash % buckets), the estimate is a minimum over all rows, update adds the weight to each addressed cell exactly once, lower = estimate and upper = estimate + eps * total, merge is dominated by the self check and the three configuration comparisons and adds cell-wise, typed overloads agree on the bytes they hash, the constructor's size limit is not defeated by wrap-around. Does not decide never-under-estimate as arithmetic or the error/confidence statistics.",
        "assumptions": ["only instantiations present in drivers/ are analysed"],
    }
