"""C05 CPC bit-matrix and lossless compression (DESIGN.md section 5 C05): tables + shape."""
import cpc_rules as P
import chains
import cowrite
import generic_lints
import hazard_lints
import predicates
import twins
import layout_rules
import triggers
import a4_twin
import json, os
from vlib.core import VERIF


def run(facts, tier):
    obs, rules = [], []
    for name, f, mn, text in (
        ("tables", P.table_rules, 41, "22 byte codes + the 65-entry unary code are complete prefix codes; 16 column permutations are bijections; definitional tables equal their definitions"),
        ("probes", P.probe_rules, 2, "coupon-table probes are circular"),
        ("union folds", P.union_rules, 7, "rows are folded with & ((1 << lg_k) - 1); reduce_k folds into a fresh matrix and precedes every merge"),
        ("union result merged", P.union_result_merged, 5, "every non-empty sketch handed out by cpc_union is marked merged (no HIP estimate) on every return path"),
        ("flavor-aware OR", P.flavor_aware_or, 3, "a sketch's table / window is OR-ed into the union matrix only where that sketch's flavor was determined; anything else goes through build_bit_matrix()"),
        ("window invariant", P.window_invariants, 1, "first_interesting_column is clamped to the window offset whenever it is recomputed"),
        ("pair codec", P.pair_codec, 1, "(row << 6) | col everywhere"),
        ("flavor boundaries", P.flavor_boundaries, 1, "determine_flavor(lg_k, c) partitions at the exact thresholds c = 0 | 32c < 3k | 2c < k | 8c < 27k, like the update path"),
        ("serializer twins", lambda fa: [o for o in a4_twin.obligations(fa, set(json.load(open(os.path.join(VERIF, "spec", "twin_armed.json")))["armed"])) if "cpc_" in o["key"]], 1, "the stream and byte writers of the CPC sketch emit the same fields under the same conditions (the compressed image is one format)"),
        ("canonical chains", lambda fa: chains.obligations(fa, ["cpc"]), 11, "typed update overloads follow the cross-language canonicalisation contract"),
        ("couplings", lambda fa: cowrite.obligations(fa, ['u32_table']), 2, "fields that every mutator updates together (counters, extremes, cached values) are still updated together"),
        ("emptiness predicate support", lambda fa: predicates.obligations(fa, ['cpc_sketch_alloc']), 1, "the emptiness predicate still consults every field it depended on in the reviewed tree (spec/predicates.json)"),
        ("tautologies", lambda fa: generic_lints.tautologies(fa, ('cpc/',)), 2, "no comparison / assignment / min-max with two identical operands, no if-else with identical arms"),
        ("hazards", lambda fa: hazard_lints.hazards(fa, ('cpc/',)), 2, "no 64-bit value silently narrowed at a call of a library function, no numeric_limits<floating>::min() as a lowest value, no random engine constructed inside a loop, no read of a moved-from parameter, no unguarded unsigned `x - c` loop bound (reviewed instances in spec/hazards.json)"),
        ("duplicate operands", lambda fa: generic_lints.duplicate_conjuncts(fa, ('cpc/',)), 2, "no logical chain tests the same operand twice (copy-paste of the wrong peer)"),
        ("forwarding peers", lambda fa: generic_lints.forwarding_peers(fa, ('cpc/',)), 7, "one-statement typed overloads forward to an overload of their own name, never to the head of a sibling family (wrong peer)"),
        ("codec constants", layout_rules.codec_constants_rule, 6, "peek width, stream paddings and word size of the low-level CPC encoders / decoders and buffer bounds equal the reviewed codec (compression stays lossless only while encoder padding, decoder peek and buffer bound are in step)"),
        ("overload twins", lambda fa: twins.overload_twins(fa, ('cpc/',)), 1, "const& and && overloads of one operation have identical bodies modulo std::move/forward"),
        ("structural triggers", lambda fa: triggers.obligations(fa, ['cpc_sketch_alloc', 'cpc_union_alloc', 'u32_table', 'cpc_compressor']), 18, "the comparisons that decide when to resize / rebuild / compact / purge / promote keep their reviewed boundary (operator and constants)"),
    ):
        o = f(facts)
        obs += o
        rules.append({"rule": name, "instances": len([x for x in o if x["status"] != "info"]), "min": mn, "text": text})
    return {
        "level": "other", "rules": rules, "obligations": obs,
        "explanation": "Exhaustive predicates over the CPC compression tables extracted from the AST (each of the 22x256 + 65 code words: Kraft sum exactly 1, prefix-free in LSB-first order, length <= 12, so the 4096-entry decoding table is total and decode(encode(b)) = b; 16x56 permutation entries bijective; trailing-zeros and KXP tables equal their definitions) plus shape rules: circular probes in the coupon hash table, masked row folding in every OR into the union matrix, reduce_k folding into a fresh matrix before any merge step, one pair codec, canonicalisation chains. Does not decide coupon-count / matrix equality, estimator values or window-move correctness.",
        "assumptions": ["clang constant evaluation of the tables", "only instantiations present in drivers/ are analysed"],
        "extra": {"exhaustive": True},
    }
