"""C19 value semantics and allocator discipline (DESIGN.md section 5 C19; A5)."""
import c19_rules
import quantile_rules
import generic_lints
import hazard_lints
import predicates
import twins


def run(facts, tier):
    obs, rules = [], []
    for name, f, mn, text in (
        ("special members", c19_rules.special_members, 100, "every own field is handled by every user-written copy/move constructor/assignment, with the right peer; raw pointers are nulled in the moved-from object"),
        ("allocate/deallocate pairing", c19_rules.alloc_pairing, 30, "deallocate sizes equal allocate sizes per owning field / local; deleters use their constructed count"),
        ("assignment fast paths", c19_rules.assign_fast_paths, 22, "every early-returning branch of a user-written assignment operator (other than the self test) brings every field over"),
        ("engaged flag", c19_rules.engaged_flag, 4, "the engaged flag of optional<T> changes only next to the construction / destruction of the stored value and is never copied from another object"),
        ("assignment safety", c19_rules.assign_safety, 8, "copy assignment reads the source before releasing owned members, or guards self-assignment"),
        ("cache invalidation", quantile_rules.cache_invalidation, 9, "assignments and mutators invalidate the cached sorted view (a moved/copied-into sketch must not keep a view of its old contents)"),
        ("raw slot flag", c19_rules.raw_slot_flag, 5, "var_opt: whenever data_ receives fresh raw memory the all-slots-constructed flag is false on return"),
        ("full initialisation", c19_rules.full_init, 9, "occupancy / key / bit arrays are initialised over their whole extent wherever they receive fresh memory (no early exit from the initialising loop)"),
        ("vacuous loops", lambda fa: generic_lints.vacuous_loops(fa, None), 2, "no counted loop whose bound was just reset to its start value (the destroy-the-rest loop after a rebuild must use the saved count)"),
        ("container allocators", c19_rules.container_allocators, 25, "with every family instantiated with a non-std user allocator (drivers/x_alloc.cpp): no container, string or member container in allocator-parameterised library code uses another allocator type, and every container construction passes an allocator instance or copies/moves a container"),
        ("foreign memory", c19_rules.foreign_memory, 0, "no new/delete/malloc outside the user's allocator (reviewed exception: CPC compressor tables)"),
        ("dangling references", c19_rules.dangling_returns, 50, "no function returns a reference to a local object"),
        ("reset completeness", lambda fa: c19_rules.reset_completeness(fa, None), 35, "every field a mutator modifies is re-initialised by reset() (a reused object equals a fresh one); reviewed exceptions are configuration fields"),
        ("emptiness predicate support", lambda fa: predicates.obligations(fa, None), 30, "the emptiness predicate still consults every field it depended on in the reviewed tree (spec/predicates.json)"),
        ("tautologies", lambda fa: generic_lints.tautologies(fa, None), 2, "no comparison / assignment / min-max with two identical operands, no if-else with identical arms"),
        ("hazards", lambda fa: hazard_lints.hazards(fa, None), 2, "no 64-bit value silently narrowed at a call of a library function, no numeric_limits<floating>::min() as a lowest value, no random engine constructed inside a loop, no read of a moved-from parameter, no unguarded unsigned `x - c` loop bound (reviewed instances in spec/hazards.json)"),
        ("duplicate operands", lambda fa: generic_lints.duplicate_conjuncts(fa, None), 2, "no logical chain tests the same operand twice (copy-paste of the wrong peer)"),
        ("state-writing shortcuts", lambda fa: generic_lints.state_writing_shortcuts(fa, None), 1, "no merge / update branch writes fields and returns early past the steps all other paths run (compaction loop, totals, cached counts); one reviewed exception"),
        ("post-increment", lambda fa: generic_lints.post_increment_semantics(fa, None), 1, "it++ copies *this, advances once and returns the copy by value"),
        ("release guards", lambda fa: generic_lints.conditional_release_before_overwrite(fa, None), 1, "an owning pointer field that is overwritten had its old object released unconditionally or under the existence test of that very object (any other guard leaks it on the other paths)"),
        ("invalidated pointers", lambda fa: generic_lints.invalidated_pointers(fa, None), 1, "no pointer / iterator obtained from begin() / end() / data() of an object is used after a call on that object that can move its storage (ensure_space, grow, resize ...)"),
        ("moves from lvalue operands", lambda fa: generic_lints.moves_from_lvalue_operands(fa, None), 1, "in the lvalue instantiation of a forwarding-reference operand nothing is std::move-d out of the operand (conditional_forward copies there): a sketch passed to be read keeps its items / summaries"),
        ("narrow shifts", lambda fa: generic_lints.narrow_variable_shift(fa, None), 1, "no count << level evaluated in 32 bits and only then widened to 64 bits (weights of large merged sketches wrap at 2^32)"),
        ("stale aliases", lambda fa: generic_lints.stale_aliases(fa, None), 1, "no use of a local pointer alias after its origin was re-assigned and the replaced object released (use after free; the replacement never receives the operation)"),
        ("forwarding peers", lambda fa: generic_lints.forwarding_peers(fa, None), 60, "one-statement typed overloads forward to an overload of their own name, never to the head of a sibling family (wrong peer)"),
        ("overload twins", lambda fa: twins.overload_twins(fa, None), 8, "const& and && overloads of one operation have identical bodies modulo std::move/forward"),
    ):
        o = f(facts)
        obs += o
        rules.append({"rule": name, "instances": len([x for x in o if x["status"] != "info"]), "min": mn, "text": text})
    return {
        "level": "other",
        "rules": rules,
        "obligations": obs,
        "explanation": "Lifecycle rules over the typed AST: special-member completeness and peer agreement for all records with user-written special members, allocate/deallocate size agreement per owning field, deleter counts, foreign new/delete, references to locals. Decides structural necessary conditions of value semantics and allocator discipline on every path; does not decide exactly-once construction/destruction of items over arbitrary histories.",
        "assumptions": ["only instantiations present in drivers/ are analysed", "defaulted special members follow the compiler's member-wise semantics"],
    }
