"""C15 Bloom filter (DESIGN.md section 5 C15; A6)."""
import bloom_rules as B
import generic_lints
import hazard_lints
import reader_twins_roles
import predicates
import c19_rules


def run(facts, tier):
    obs, rules = [], []
    for name, f, mn, text in (
        ("typestate", B.typestate, 12, "every writer of the bit array is guarded against read-only filters and publishes the count / dirty marker before returning"),
        ("stale count", B.stale_count, 5, "the cached count num_bits_set_ is only read where it cannot be stale (dirty-flag discipline)"),
        ("copy coherence", lambda fa: [o for o in c19_rules.assign_fast_paths(fa) if o["key"].startswith("bloom_filter_alloc")] + [o for o in c19_rules.special_members(fa) if o["key"].startswith("bloom_filter_alloc") and o["key"].split(":")[-1] in ("is_dirty_", "num_bits_set_", "bit_array_", "capacity_bits_", "seed_", "num_hashes_")], 10, "copies and assignments carry the dirty marker, the cached count and the hashing parameters together with the bit array on every path"),
        ("index agreement", B.index_agreement, 3, "update, query and query_and_update probe the same bit positions"),
        ("compatibility", B.compat, 3, "set operations are dominated by the compatibility check"),
        ("recount order", B.recount_before_writes, 1, "a function that sets bits and adjusts the cached count incrementally takes the recount of a stale cache before the first bit write"),
        ("bit operations", B.bitops, 3, "union/intersect/invert combine every byte and count the result byte on every iteration"),
        ("overload siblings", B.overload_siblings, 20, "update(T), query(T), query_and_update(T) canonicalise and hash identically"),
        ("reset completeness", lambda fa: c19_rules.reset_completeness(fa, ['bloom_filter_alloc']), 2, "every field a mutator modifies is re-initialised by reset() (a reused object equals a fresh one); reviewed exceptions are configuration fields"),
        ("emptiness predicate support", lambda fa: predicates.obligations(fa, ['bloom_filter_alloc']), 2, "the emptiness predicate still consults every field it depended on in the reviewed tree (spec/predicates.json)"),
        ("bit-array extents", B.extent_units, 10, "every fill / copy / count / combine / write of the bit array covers exactly capacity_bits_ >> 3 bytes"),
        ("tautologies", lambda fa: generic_lints.tautologies(fa, ('filters/',)), 2, "no comparison / assignment / min-max with two identical operands, no if-else with identical arms"),
        ("reader twin roles", lambda fa: reader_twins_roles.obligations(fa, ["filters"]), 1, "the stream reader and the byte reader hand booleans of the same origin (same flag bit / same comparison with the dirty marker) to the constructor"),
        ("hazards", lambda fa: hazard_lints.hazards(fa, ('filters/',)), 2, "no 64-bit value silently narrowed at a call of a library function, no numeric_limits<floating>::min() as a lowest value, no random engine constructed inside a loop, no read of a moved-from parameter, no unguarded unsigned `x - c` loop bound (reviewed instances in spec/hazards.json)"),
        ("duplicate operands", lambda fa: generic_lints.duplicate_conjuncts(fa, ('filters/',)), 2, "no logical chain tests the same operand twice (copy-paste of the wrong peer)"),
        ("state-writing shortcuts", lambda fa: generic_lints.state_writing_shortcuts(fa, ['bloom_filter_alloc']), 1, "no merge / update branch writes fields and returns early past the steps all other paths run (compaction loop, totals, cached counts); one reviewed exception"),
        ("forwarding peers", lambda fa: generic_lints.forwarding_peers(fa, ('filters/',)), 18, "one-statement typed overloads forward to an overload of their own name, never to the head of a sibling family (wrong peer)"),
    ):
        o = f(facts)
        obs += o
        rules.append({"rule": name, "instances": len([x for x in o if x["status"] != "info"]), "min": mn, "text": text})
    return {
        "level": "other", "rules": rules, "obligations": obs,
        "explanation": "Typestate and sibling-agreement rules over the Bloom filter code in the typed AST: structured dataflow (write of the bit array -> publication of count/dirty marker on every path to a normal exit), read-only guard dominance, dirty-flag discipline on reads of the cached count, one probe formula, compatibility dominance, per-byte bit operations counting their result, identical argument preparation across update/query/query_and_update overloads. Does not decide the false-positive rate.",
        "assumptions": ["anchors: fields bit_array_, memory_, is_dirty_, is_read_only_, num_bits_set_ of bloom_filter_alloc", "only instantiations present in drivers/ are analysed"],
    }
