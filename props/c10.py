"""C10 documented layout and compatibility (DESIGN.md section 5 C10): constants and roles."""
import json
import os
import a4_twin
from vlib.core import VERIF
import layout_rules as L
import chains


def run(facts, tier):
    obs, rules = [], []
    for name, f, mn, text in (
        ("constants", L.constants_rule, 150, "family ids, serial versions, flag bits, preamble sizes, fixed offsets equal the documented values"),
        ("writer prefixes", L.prefix_rule, 20, "the constant-offset prefix of every stream writer has the documented (width, constant) sequence"),
        ("serializer twins", lambda fa: a4_twin.obligations(fa, set(json.load(open(os.path.join(VERIF, "spec", "twin_armed.json")))["armed"])), 20, "the byte writer of every type emits the fields the (documented) stream writer emits, in the same order and under the same conditions: an image does not depend on which of the two produced it"),
        ("legacy dispatch", L.dispatch_rule, 10, "readers accept exactly the documented serial versions / types"),
        ("documented semantics", L.documented_semantics, 3, "legacy v1 emptiness rule; single-item sketches are ordered"),
        ("estimation state written", L.estimation_state_written, 8, "compact Theta / Tuple writers: truth table over (estimation mode, empty, single entry) - estimation mode always selects the 3-long preamble and theta is written exactly then"),
        ("hll set probe", L.hll_set_probe, 2, "slot positions of the SET-mode coupon table (verbatim in updatable images): start and stride follow the documented probing"),
        ("hash constants", L.hash_constants_rule, 8, "literals, shifts and named constants of the hash functions equal the published definitions"),
        ("hash structure", L.hash_digest_rule, 8, "operator/literal/control structure of the published hash functions equals the reviewed reference implementation"),
        ("flag decoding", L.flag_provenance, 50, "booleans decoded from the flags byte depend on exactly the documented bits"),
        ("canonical chains", lambda fa: chains.obligations(fa, ["theta", "tuple", "hll", "cpc"], [("theta", "tuple"), ("theta", "cpc")]), 44, "typed update overloads follow the cross-language canonicalisation contract in all four distinct-count families"),
    ):
        o = f(facts)
        obs += o
        rules.append({"rule": name, "instances": len([x for x in o if x["status"] != "info"]), "min": mn, "text": text})
    return {
        "level": "other", "rules": rules, "obligations": obs,
        "explanation": "Constants and roles of the documented cross-language layout, compared with the reviewed table spec/layouts.json (transcribed from the layout comments in the headers and the Java family table): every preamble constant and flag enumerator evaluated by clang, the (width, constant) sequence of the constant-offset prefix written by every stream writer, the sets of serial versions / types each reader accepts, the integer literals, constant shifts and named constants of MurmurHash3, fmix64, XXHash64, seed hash, theta hash, HLL coupon and CPC row/col derivation, and the input canonicalisation chains. A change applied consistently to writer and reader (invisible to round-trip tests) is a violation here. Does not decide that stored reference images deserialize to the same content (needs execution).",
        "assumptions": ["spec/layouts.json and spec/canonical.json are the reviewed documentation tables", "same-width field swaps that keep constants in place are not visible to the prefix rule", "only instantiations present in drivers/ are analysed"],
    }
