"""C09 serialization round trip: sibling agreement (see DESIGN.md §5 C09, §4 A4)."""
import bitprov
import a4_header
import a4_twin
import io_words
import size_branches
import dead_reads
import derived
import reader_extra
import layout_rules
import hll_rules
import quantile_rules
import flag_sections
import theta_rules
import reader_assigns
import json, os
from vlib.core import VERIF


def run(facts, tier):
    obs = []
    rules = []
    o = bitprov.obligations(facts)
    obs += o
    rules.append({"rule": "bitprov", "instances": len(o), "min": 65,
                  "text": "exact bit provenance: unpack_bits_N(pack_bits_N(x)) = x for all 8 inputs x N bits, N bytes written; dispatch switches route case N to pair N"})
    o = a4_header.obligations(facts)
    obs += o
    rules.append({"rule": "header", "instances": len([x for x in o if x["status"] != "info"]), "min": 39,
                  "text": "byte writers honour header_size_bytes (allocation, cursor start, end pointer, forwarding)"})
    armed = set(json.load(open(os.path.join(VERIF, "spec", "twin_armed.json")))["armed"])
    o = a4_twin.obligations(facts, armed)
    obs += o
    rules.append({"rule": "writer-twin", "instances": len([x for x in o if x["status"] != "info"]), "min": 20,
                  "text": "stream writer and byte writer of one type are twin programs modulo the write primitive (fields, widths, order, conditions, state flowing into the image)"})
    o = dead_reads.obligations(facts)
    obs += o
    rules.append({"rule": "reader dead-reads", "instances": len([x for x in o if x["status"] != "info"]), "min": 250,
                  "text": "no return of a reader lies between the read of an image value and the place where that value is used (restored state is complete on every path)"})
    import reader_twins_roles
    o = reader_twins_roles.obligations(facts)
    obs += o
    rules.append({"rule": "reader twin roles", "instances": len([x for x in o if x["status"] != "info"]), "min": 8,
                  "text": "the stream reader and the byte reader of one class hand booleans of the same origin (same flag bit, same comparison of an image value with a constant) to the same constructor position"})
    sarmed = set(json.load(open(os.path.join(VERIF, "spec", "size_armed.json")))["armed"])
    o = size_branches.obligations(facts, sarmed)
    obs += o
    rules.append({"rule": "size-branches", "instances": len([x for x in o if x["status"] != "info"]), "min": 9,
                  "text": "the advertised size function branches only on state predicates the byte writer branches on"})
    exc = json.load(open(os.path.join(VERIF, "spec", "io_words_exceptions.json")))
    o = io_words.obligations(facts, {k: v for k, v in exc.items() if not k.startswith("_")})
    obs += o
    rules.append({"rule": "io-words", "instances": len([x for x in o if x["status"] != "info"]), "min": 28,
                  "text": "every linear layout a writer can emit (fixed runs, raw / serde / nested parts, loops) is one of the layouts the corresponding reader consumes, for the stream and the byte forms"})
    o = hll_rules.ooo_resets_hip(facts)
    obs += o
    rules.append({"rule": "hll ooo/hip", "instances": len(o), "min": 3,
                  "text": "a field the readers skip under a flag (HLL hipAccum when out-of-order) is zeroed wherever that flag is set, so the image of a union result survives its own round trip"})
    o = flag_sections.obligations(facts)
    obs += o
    rules.append({"rule": "flag / section coherence", "instances": len([x for x in o if x["status"] != "info"]), "min": 30,
                  "text": "a flag bit on which a reader decides whether a section follows is set by the writers from state that also guards writes of a section (not from another predicate that differs in some states)"})
    o = theta_rules.entry_bits_cover_all_deltas(facts)
    obs += o
    rules.append({"rule": "compressed deltas", "instances": len(o), "min": 1,
                  "text": "the field width of compressed compact theta images covers every delta of the ordered hashes, the first one counted from zero"})
    o = reader_assigns.obligations(facts)
    obs += o
    rules.append({"rule": "reader conditional assignments", "instances": len([x for x in o if x["status"] != "info"]), "min": 30,
                  "text": "defaults and derived values a reader assigns to restored state only on some paths are still assigned under the reviewed branch conditions (spec/reader_assigns.json)"})
    o = layout_rules.estimation_state_written(facts)
    obs += o
    rules.append({"rule": "estimation state written", "instances": len(o), "min": 8,
                  "text": "compact Theta / Tuple writers write theta for every estimation-mode sketch (truth table over estimation mode, empty, single entry)"})
    o = reader_extra.narrow_image_arith(facts)
    obs += o
    rules.append({"rule": "narrow image arithmetic", "instances": len(o), "min": 1,
                  "text": "no 32-bit image field is shifted / multiplied in 32 bits and only then widened to 64 bits in a reader (valid large images would come back with a wrapped capacity)"})
    o = derived.rest_state(facts)
    obs += o
    rules.append({"rule": "rest state", "instances": len(o), "min": 4,
                  "text": "state an image does not carry (VarOpt's transient M region, the all-slots-constructed flag) is restored to the value a live object has at rest"})
    o = quantile_rules.level_capacity(facts)
    obs += o
    rules.append({"rule": "level capacity", "instances": len(o), "min": 3,
                  "text": "every quantiles level that starts empty is reserved to k before it becomes part of a restored sketch (zip_buffer takes k from the capacity): a restored sketch keeps accepting updates"})
    o = derived.obligations(facts)
    obs += o
    rules.append({"rule": "derived fields", "instances": len(o), "min": 18,
                  "text": "state that is not stored in the image but derived (REQ section_size_ via nearest_even, var_opt allocation size, bloom popcount) is derived by the same function in the readers' constructors as in the mutators"})
    return {
        "level": "other",
        "rules": rules,
        "obligations": obs,
        "explanation": "Static sibling-agreement rules over the typed AST of every serializer: bit-provenance abstract interpretation of the 63 pack/unpack routines (exhaustive over all bits, no execution), header rule over all byte writers, writer twins, and inclusion of every writer layout word in the reader's set of accepted words (path enumeration over both bodies, conditions ignored). Decides structural necessary conditions of the round trip, not observational equality of restored sketches.",
        "assumptions": ["clang 14 front end; tools/dsx exporter faithful", "pack_bits_N precondition: bits >= N of each input are zero (documented)",
                        "only instantiations present in drivers/ are analysed"],
    }
