"""C01 Theta update sketch is an exact hash-threshold sample (DESIGN.md section 5 C01): structural clauses."""
import layout_rules
import theta_rules as T
import chains
import hll_rules
import generic_lints
import hazard_lints
import predicates
import c19_rules
import triggers


def run(facts, tier):
    obs, rules = [], []
    for name, f, mn, text in (
        ("screens", T.screens, 9, "every key-vs-theta comparison accepts on `<` and rejects on `>=`"),
        ("theta writes", T.theta_writes, 5, "theta is written only by min(old, x), the rebuild pivot, or reset"),
        ("pivot agreement", T.pivots, 2, "nth_element pivot index == index whose key becomes theta == new retained count"),
        ("emptiness/duplicates", T.emptiness_and_duplicates, 3, "hash_and_screen clears is_empty_ before any return; insert only after a failed find"),
        ("canonical chains", lambda fa: chains.obligations(fa, ["theta"]), 11, "typed update overloads follow the cross-language canonicalisation contract"),
        ("hash function", lambda fa: [o for o in layout_rules.hash_constants_rule(fa) + layout_rules.hash_digest_rule(fa) if any(n in o["key"] for n in ("MurmurHash3_x64_128", "fmix64", "getblock64", "compute_hash", "canonical_double"))], 6, "the retained values are MurmurHash3 hashes: literals and operator structure of the hash function, its block reader and finaliser and the -0.0 / NaN canonicaliser equal the published definition"),
        ("probe extent", lambda fa: hll_rules.probe_extent(fa, ("theta", "tuple")), 1, "the resized table is probed with the lg size it was allocated with"),
        ("rebuild precondition", T.rebuild_precondition, 2, "rebuild() is only called with strictly more than nominal-size entries"),
        ("builder/reset", T.builder_reset, 2, "reset() restores theta through the builder's helper; re-reads follow member resets"),
        ("reset completeness", lambda fa: c19_rules.reset_completeness(fa, ['update_theta_sketch_alloc','theta_update_sketch_base']), 6, "every field a mutator modifies is re-initialised by reset() (a reused object equals a fresh one); reviewed exceptions are configuration fields"),
        ("emptiness predicate support", lambda fa: predicates.obligations(fa, ['update_theta_sketch_alloc','compact_theta_sketch_alloc']), 2, "the emptiness predicate still consults every field it depended on in the reviewed tree (spec/predicates.json)"),
        ("delegations", lambda fa: generic_lints.unconditional_delegations(fa, ('theta/',)), 2, "wrappers that only hand an operation to a member object still do so unconditionally (spec/delegations.json)"),
        ("tautologies", lambda fa: generic_lints.tautologies(fa, ('theta/',)), 2, "no comparison / assignment / min-max with two identical operands, no if-else with identical arms"),
        ("hazards", lambda fa: hazard_lints.hazards(fa, ('theta/',)), 2, "no 64-bit value silently narrowed at a call of a library function, no numeric_limits<floating>::min() as a lowest value, no random engine constructed inside a loop, no read of a moved-from parameter, no unguarded unsigned `x - c` loop bound (reviewed instances in spec/hazards.json)"),
        ("duplicate operands", lambda fa: generic_lints.duplicate_conjuncts(fa, ('theta/',)), 2, "no logical chain tests the same operand twice (copy-paste of the wrong peer)"),
        ("forwarding peers", lambda fa: generic_lints.forwarding_peers(fa, ('theta/',)), 8, "one-statement typed overloads forward to an overload of their own name, never to the head of a sibling family (wrong peer)"),
        ("structural triggers", lambda fa: triggers.obligations(fa, ['theta_update_sketch_base']), 3, "the comparisons that decide when to resize / rebuild / compact / purge / promote keep their reviewed boundary (operator and constants)"),
    ):
        o = f(facts)
        obs += o
        rules.append({"rule": name, "instances": len([x for x in o if x["status"] != "info"]), "min": mn, "text": text})
    return {
        "level": "other", "rules": rules, "obligations": obs,
        "explanation": "Structural necessary conditions of the hash-threshold sample, decided on every path of the Theta/Tuple update, rebuild, reset code in the typed AST: strict screens (theta-valued dataflow), monotone theta writers, pivot agreement, emptiness, duplicate suppression, builder/reset agreement. Does not decide that the retained set equals the sample (needs hash values), estimate exactness, or probing termination.",
        "assumptions": ["anchors: fields theta_/union_theta_ and num_entries_ of the theta/tuple records", "only instantiations present in drivers/ are analysed"],
    }
