"""C20 density sketch (DESIGN.md section 5 C20): thin structural clauses."""
import validators
import quantile_rules as Q
import cowrite
import generic_lints
import hazard_lints
import predicates
import triggers


def run(facts, tier):
    obs, rules = [], []
    for name, f, mn, text in (
        ("density rules", Q.density_rules, 6, "dimension guard dominates modification; n_/num_retained_ updated exactly once; compaction accounts every point; estimate weights"),
        ("iterator", lambda fa: Q.iterator_rules(fa, ("density/",)), 3, "iterator constructor couples level and height like operator++"),
        ("compaction loop", lambda fa: [o for o in Q.compaction_triggers(fa) if o["key"].startswith("density")], 2, "compaction repeats while num_retained_ >= k * levels"),
        ("levels grow only", lambda fa: [o for o in Q.level_growth(fa) if o["key"].startswith("density_sketch")], 2, "the vector of levels only grows in mutators (push_back under a size test); no resize/erase/clear can drop levels with their points"),
        ("couplings", lambda fa: cowrite.obligations(fa, ['density_sketch']), 2, "fields that every mutator updates together (counters, extremes, cached values) are still updated together"),
        ("emptiness predicate support", lambda fa: predicates.obligations(fa, ['density_sketch']), 1, "the emptiness predicate still consults every field it depended on in the reviewed tree (spec/predicates.json)"),
        ("argument checkers", lambda fa: validators.checker_obligations(fa, ["density"]), 5, "the argument / image checkers of the family reject exactly the reviewed ranges (spec/checkers.json)"),
        ("moves from lvalue operands", lambda fa: generic_lints.moves_from_lvalue_operands(fa, ['density']), 1, "in the lvalue instantiation of a forwarding-reference operand nothing is std::move-d out of the caller's object (a point passed to update() by name stays intact)"),
        ("tautologies", lambda fa: generic_lints.tautologies(fa, ('density/',)), 2, "no comparison / assignment / min-max with two identical operands, no if-else with identical arms"),
        ("hazards", lambda fa: hazard_lints.hazards(fa, ('density/',)), 2, "no 64-bit value silently narrowed at a call of a library function, no numeric_limits<floating>::min() as a lowest value, no random engine constructed inside a loop, no read of a moved-from parameter, no unguarded unsigned `x - c` loop bound (reviewed instances in spec/hazards.json)"),
        ("duplicate operands", lambda fa: generic_lints.duplicate_conjuncts(fa, ('density/',)), 2, "no logical chain tests the same operand twice (copy-paste of the wrong peer)"),
        ("state-writing shortcuts", lambda fa: generic_lints.state_writing_shortcuts(fa, ['density_sketch']), 1, "no merge / update branch writes fields and returns early past the steps all other paths run (compaction loop, totals, cached counts); one reviewed exception"),
        ("post-increment", lambda fa: generic_lints.post_increment_semantics(fa, ('density/',)), 1, "it++ copies *this, advances once and returns the copy by value"),
        ("structural triggers", lambda fa: triggers.obligations(fa, ['density_sketch']), 4, "the comparisons that decide when to resize / rebuild / compact / purge / promote keep their reviewed boundary (operator and constants)"),
    ):
        o = f(facts)
        obs += o
        rules.append({"rule": name, "instances": len([x for x in o if x["status"] != "info"]), "min": mn, "text": text})
    return {
        "level": "other", "rules": rules, "obligations": obs,
        "explanation": "Thin structural clauses of the density sketch on every path: dimension refusal dominates modification in update and merge, n_ and num_retained_ are updated exactly once on accept paths, compact_level either promotes or subtracts every point of the cleared level, compaction repeats until the retained bound holds, iterator level/height coupling, estimate weights 2^height / n. Does not decide exact-mode equality with the kernel mean or finiteness.",
        "assumptions": ["only instantiations present in drivers/ are analysed"],
    }
