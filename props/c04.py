"""C04 HLL union (DESIGN.md section 5 C04; A6)."""
import triggers
import hll_rules as H
import generic_lints
import hazard_lints
import c19_rules


def run(facts, tier):
    obs, rules = [], []
    for name, f, mn, text in (
        ("refresh discipline", H.union_refresh, 6, "no observer of derived HLL state (curMin, numAtCurMin, kxq) runs on the gadget before check_rebuild_kxq_cur_min()"),
        ("lg_k rule", H.union_lgk, 1, "the gadget is down-sampled to the source's lg_k before an HLL x HLL merge"),
        ("replace only if empty", H.union_replace, 3, "the gadget is replaced by the input only when empty (or the old content is merged); rvalue take-over fully guarded"),
        ("own-size masks", H.own_size_masks, 6, "register masks derive from this array's own lg_k"),
        ("gadget type", H.union_gadget_type, 3, "every object that becomes the gadget is HLL_8 by construction"),
        ("reset agreement", H.union_reset, 1, "reset() rebuilds the gadget with the constructor's parameters"),
        ("merge loops", H.merge_loops, 6, "every merge loop folds every source slot with max, no conditional skip"),
        ("register stores", H.register_stores, 10, "every register store is a max"),
        ("reset completeness", lambda fa: c19_rules.reset_completeness(fa, ['hll_union_alloc','hll_sketch_alloc']), 2, "every field a mutator modifies is re-initialised by reset() (a reused object equals a fresh one); reviewed exceptions are configuration fields"),
        ("ooo resets hip", H.ooo_resets_hip, 3, "setting the out-of-order flag zeroes the HIP accumulator of the same array; readers restore the accumulator only for in-order images"),
        ("structural triggers", lambda fa: triggers.obligations(fa, ['hll_union_alloc']), 6, "the comparisons that decide whether the union copies, down-samples or merges an input keep their reviewed boundary (operator and constants)"),
        ("delegations", lambda fa: generic_lints.unconditional_delegations(fa, ('hll/',)), 12, "the typed update overloads of the union hand every datum to the gadget unconditionally, like the sketch's own overloads (spec/delegations.json)"),
        ("aux values", H.aux_values, 2, "the HLL_4 exception table receives actual register values, never values shifted by curMin"),
        ("find() result tests", H.find_result_tests, 4, "the result of the open-addressing find() is only ever split into < 0 (absent) and >= 0 (present, cell 0 included)"),
        ("tautologies", lambda fa: generic_lints.tautologies(fa, ('hll/',)), 2, "no comparison / assignment / min-max with two identical operands, no if-else with identical arms"),
        ("hazards", lambda fa: hazard_lints.hazards(fa, ('hll/',)), 2, "no 64-bit value silently narrowed at a call of a library function, no numeric_limits<floating>::min() as a lowest value, no random engine constructed inside a loop, no read of a moved-from parameter, no unguarded unsigned `x - c` loop bound (reviewed instances in spec/hazards.json)"),
        ("duplicate operands", lambda fa: generic_lints.duplicate_conjuncts(fa, ('hll/',)), 2, "no logical chain tests the same operand twice (copy-paste of the wrong peer)"),
        ("stale aliases", lambda fa: generic_lints.stale_aliases(fa, ('hll/',)), 1, "no use of a local pointer alias after its origin was re-assigned and the replaced object released (use after free; the replacement never receives the operation)"),
    ):
        o = f(facts)
        obs += o
        rules.append({"rule": name, "instances": len([x for x in o if x["status"] != "info"]), "min": mn, "text": text})
    return {
        "level": "other", "rules": rules, "obligations": obs,
        "explanation": "Typestate and shape rules over the HLL union code in the typed AST: dirty-flag discipline (transitive field-read sets over the resolved call graph incl. virtual dispatch; every observer of derived state is preceded by the refresher), lg_k down-sampling before merges, replacement of the gadget only when empty or with its content merged, full guard set on the rvalue take-over, merge loops fold every slot with max. Does not decide register-level equality with the single-sketch result.",
        "assumptions": ["anchors: HllArray fields curMin_/numAtCurMin_/kxq0_/kxq1_, check_rebuild_kxq_cur_min, mergeHll, copy_or_downsample", "only instantiations present in drivers/ are analysed"],
    }
