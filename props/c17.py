"""C17 t-digest: thin structural clauses (weight accounting, extremes, guards); see rules/tdigest_rules.py."""
import tdigest_rules as T
import generic_lints
import hazard_lints
import triggers
import predicates
import dead_reads


def run(facts, tier):
    obs, rules = [], []
    for name, f, mn, text in (
        ("tdigest bookkeeping", T.obligations, 20, "NaN rejected first; every accepted value buffered and folded into min/max; total weight = centroids_weight_ + buffer size; merge / compress hand exactly the counted sources to the internal merge with exactly their weight; the internal merge adds the weight once, re-merges own centroids, clears the buffer, keeps min/max monotone and the extreme centroids singletons; rank / quantile guards and clamps at the extremes; CDF / PMF assembly"),
        ("interpolation direction", T.interpolation_direction, 1, "between two centroids get_quantile moves from the left mean to the right mean as the rank grows (sign of the target weight in the two interpolation weights)"),
        ("size limit", T.size_limit, 1, "a centroid absorbs its neighbour only within the tighter (min) of the size limits at its two ends, so the extreme centroids stay singletons"),
        ("emptiness predicate support", lambda fa: predicates.obligations(fa, ['tdigest']), 2, "is_empty consults centroids and buffer"),
        ("reader dead-reads", lambda fa: [o for o in dead_reads.obligations(fa) if "tdigest" in o["key"]], 10, "every field the t-digest readers take from the image reaches the restored sketch on every accepting path"),
        ("tautologies", lambda fa: generic_lints.tautologies(fa, ('tdigest/',)), 2, "no comparison / assignment / min-max with two identical operands"),
        ("hazards", lambda fa: hazard_lints.hazards(fa, ('tdigest/',)), 2, "no 64-bit value silently narrowed at a call of a library function, no numeric_limits<floating>::min() as a lowest value, no random engine constructed inside a loop, no read of a moved-from parameter, no unguarded unsigned `x - c` loop bound (reviewed instances in spec/hazards.json)"),
        ("duplicate operands", lambda fa: generic_lints.duplicate_conjuncts(fa, ('tdigest/',)), 2, "no logical chain tests the same operand twice"),
        ("structural triggers", lambda fa: triggers.obligations(fa, ['tdigest']), 2, "the comparisons that decide when to compress / grow / downsample keep their reviewed boundary (operator and constants)"),
    ):
        o = f(facts)
        obs += o
        rules.append({"rule": name, "instances": len([x for x in o if x["status"] != "info"]), "min": mn, "text": text})
    return {
        "level": "other", "rules": rules, "obligations": obs,
        "explanation": "Weight-accounting, extreme-value and guard clauses of the t-digest decided from the typed AST: what enters the buffer and the extremes, which sources and how much weight each merge path hands to the internal merge, single unconditional weight update, protection of the extreme centroids (they stay singletons, so their means are the exact min / max), rejection of NaN / empty / out-of-range queries, rank 0 / 1 outside [min, max], quantile clamps to min_ / max_ for the outermost unit of weight, CDF / PMF assembly. Does NOT decide the interpolation arithmetic, monotonicity of rank / quantile between centroids, the centroid-count bound, or accuracy.",
        "assumptions": ["anchor names: update / merge / compress / get_rank / get_quantile", "only instantiations present in drivers/ are analysed"],
    }
