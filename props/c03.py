"""C03 HLL per-slot max in every mode and width (DESIGN.md section 5 C03)."""
import validators
import hll_rules as H
import chains
import generic_lints
import hazard_lints
import predicates
import triggers


def run(facts, tier):
    obs, rules = [], []
    for name, f, mn, text in (
        ("register stores", H.register_stores, 10, "every register store is max(current, new) or guarded by new > current"),
        ("merge loops", H.merge_loops, 6, "merge loops fold every slot, no conditional skip"),
        ("nibble decode", H.nibble_decode, 2, "HLL_4 decoding: AUX_TOKEN -> exception lookup, otherwise raw + curMin, and nothing else"),
        ("successor locals", H.successor_locals, 1, "a member is not read between computing its successor local and storing it back"),
        ("estimator operands", H.estimator_operands, 3, "the incremental estimator update uses the value the register decision was made on"),
        ("probe extent", lambda fa: H.probe_extent(fa, ("hll",)), 2, "arrays handed to probing helpers were sized 1 << the lg size passed with them"),
        ("coupon codec", H.coupon_constants, 1, "pair/getLow26/getValue use one key width"),
        ("canonical chains", lambda fa: chains.obligations(fa, ["hll"]), 11, "typed update overloads follow the cross-language canonicalisation contract"),
        ("mode byte", H.mode_byte, 1, "mode byte encode/decode are inverse"),
        ("emptiness predicate support", lambda fa: predicates.obligations(fa, ['HllArray','CouponList','hll_sketch_alloc']), 5, "the emptiness predicate still consults every field it depended on in the reviewed tree (spec/predicates.json)"),
        ("coupon identity", H.coupon_identity, 2, "LIST and SET agree on what an already-present coupon is: the whole stored element equals the whole new coupon"),
        ("aux values", H.aux_values, 2, "the HLL_4 exception table receives actual register values, never values shifted by curMin"),
        ("find() result tests", H.find_result_tests, 4, "the result of the open-addressing find() is only ever split into < 0 (absent) and >= 0 (present, cell 0 included)"),
        ("argument checkers", lambda fa: validators.checker_obligations(fa, ["hll"]), 2, "the argument checkers of the family (checkLgK, checkNumStdDev, ...) reject exactly the reviewed ranges (spec/checkers.json)"),
        ("tautologies", lambda fa: generic_lints.tautologies(fa, ('hll/',)), 2, "no comparison / assignment / min-max with two identical operands, no if-else with identical arms"),
        ("hazards", lambda fa: hazard_lints.hazards(fa, ('hll/',)), 2, "no 64-bit value silently narrowed at a call of a library function, no numeric_limits<floating>::min() as a lowest value, no random engine constructed inside a loop, no read of a moved-from parameter, no unguarded unsigned `x - c` loop bound (reviewed instances in spec/hazards.json)"),
        ("duplicate operands", lambda fa: generic_lints.duplicate_conjuncts(fa, ('hll/',)), 2, "no logical chain tests the same operand twice (copy-paste of the wrong peer)"),
        ("release guards", lambda fa: generic_lints.conditional_release_before_overwrite(fa, ('hll/',)), 1, "an owning pointer field that is overwritten had its old object released unconditionally or under the existence test of that very object (any other guard leaks it on the other paths)"),
        ("invalidated pointers", lambda fa: generic_lints.invalidated_pointers(fa, ('hll/',)), 1, "no pointer / iterator obtained from begin() / end() / data() of an object is used after a call on that object that can move its storage (ensure_space, grow, resize ...)"),
        ("forwarding peers", lambda fa: generic_lints.forwarding_peers(fa, ('hll/',)), 2, "one-statement typed overloads forward to an overload of their own name, never to the head of a sibling family (wrong peer)"),
        ("structural triggers", lambda fa: triggers.obligations(fa, ['AuxHashMap', 'CouponHashSet', 'CouponList', 'Hll4Array']), 8, "the comparisons that decide when to resize / rebuild / compact / purge / promote keep their reviewed boundary (operator and constants)"),
    ):
        o = f(facts)
        obs += o
        rules.append({"rule": name, "instances": len([x for x in o if x["status"] != "info"]), "min": mn, "text": text})
    return {
        "level": "other", "rules": rules, "obligations": obs,
        "explanation": "Shape rules over the HLL register code: max-store discipline on every store, fold-every-slot merge loops, agreement of the HLL_4 nibble decoders, no stale member read after its successor is computed, coupon pack/unpack constants, mode byte inverse (evaluated switch tables). Does not decide HLL_4 aux/cur-min arithmetic in full or equality of estimates across types.",
        "assumptions": ["only instantiations present in drivers/ are analysed"],
    }
