"""C06 estimates and confidence bounds (DESIGN.md section 5 C06): ordering clauses only."""
import validators
import bounds_rules as B
import hll_rules as H
import cpc_rules
import theta_rules


def run(facts, tier):
    obs, rules = [], []
    for name, f, mn, text in (
        ("tables", B.table_rules, 80, "exhaustive sign / widening predicates over every entry of the HLL, CPC and binomial bound tables"),
        ("binomial", B.binomial_rules, 4, "clamp shapes min(estimate, max(n, lb)) / max(estimate, ub); small-sample branches typed monotone in the tail probability"),
        ("bound shapes", B.hll_cpc_bound_shapes, 9, "HLL and CPC bound formulas: estimate / (1 +- eps), right table side, argument validated"),
        ("theta reset", theta_rules.builder_reset, 2, "reset() restores the starting theta (exactness below k after reuse)"),
        ("cpc union folds", cpc_rules.union_rules, 3, "every row of the union's bit matrix survives a reduction of k: reduce_k folds all old rows into a fresh zeroed matrix through the row mask (an estimate computed from a matrix that lost rows is far outside its bounds)"),
        ("cpc window invariant", cpc_rules.window_invariants, 1, "no coupon is dropped by a first-interesting-column beyond the window (estimates are functions of the coupon count)"),
        ("hll merge loops", H.merge_loops, 6, "an HLL union folds every register of the source (loop extent from the source's size, no conditional skip): the union estimate is not low by a dropped part of a larger source"),
        ("argument checkers", lambda fa: validators.checker_obligations(fa, ["hll", "cpc", "theta", "common"]), 10, "the argument checkers behind the bound queries (number of standard deviations 1..3, lg_k ranges, theta ranges) reject exactly the reviewed ranges (spec/checkers.json)"),
        ("union refresh", H.union_refresh, 6, "bounds of an HLL union are computed on refreshed state"),
    ):
        o = f(facts)
        obs += o
        rules.append({"rule": name, "instances": len([x for x in o if x["status"] != "info"]), "min": mn, "text": text})
    n_tab = len([o for o in obs if o["rule"].startswith("tables")])
    return {
        "level": "other", "rules": rules, "obligations": obs,
        "explanation": "lower <= estimate <= upper and monotone widening, where the code makes them structural: every entry of the HLL relative-error tables (108), CPC confidence tables (132), binomial equivalence tables (242 rows) and the HLL composite x-table is checked exhaustively for sign and strict widening in the number of std-devs (the finite domain of the tables is exhausted: proof level for the table part); clamp shapes of the binomial bounds; a monotonicity typing of the small-sample branches in the tail probability delta; formula shapes of the HLL and CPC bounds; HLL union bounds computed on refreshed state. Bias, RSE, interval coverage and small-range accuracy are statistical and NOT decided.",
        "assumptions": ["table index formulas are the ones checked in the shape rules", "floating-point evaluation of table entries by clang's constant evaluator", "only instantiations present in drivers/ are analysed"],
        "extra": {"exhaustive": True, "table_obligations": n_tab},
    }
