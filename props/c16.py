"""C16 VarOpt: thin structural clauses (bookkeeping and dispatch); see rules/sampling_rules.py."""
from vlib.core import VERIF
import json, os
import a4_twin
import sampling_rules as S
import cowrite
import generic_lints
import hazard_lints
import triggers
import c19_rules
import predicates
import dead_reads
import derived


def run(facts, tier):
    obs, rules = [], []
    for name, f, mn, text in (
        ("varopt bookkeeping", S.varopt, 8, "weight validation first, n counted once per accepted item, update dispatch conditions, H items report stored weights and R items the reservoir weight (last R item takes the remainder), sample count = min(h + r, k), union adds n once"),
        ("couplings", lambda fa: cowrite.obligations(fa, ['var_opt_sketch']), 2, "r_ and total_wt_r_ change together (reviewed exception: decrease_k_by_1 in pure reservoir mode keeps the total on purpose)"),
        ("reset completeness", lambda fa: c19_rules.reset_completeness(fa, ['var_opt_sketch', 'var_opt_union']), 10, "every field a mutator modifies is re-initialised by reset()"),
        ("emptiness predicate support", lambda fa: predicates.obligations(fa, ['var_opt_sketch']), 2, "is_empty keeps its reviewed support"),
        ("rest state", derived.rest_state, 4, "the readers restore the transient M region as empty and the gap slot as raw memory"),
        ("reader dead-reads", lambda fa: [o for o in dead_reads.obligations(fa) if "var_opt" in o["key"]], 10, "every field the VarOpt readers take from the image reaches the restored sketch on every accepting path"),
        ("serializer twins", lambda fa: [o for o in a4_twin.obligations(fa, set(json.load(open(os.path.join(VERIF, "spec", "twin_armed.json")))["armed"])) if "var_opt" in o["key"]], 2, "stream and byte writers of the VarOpt sketch and union emit the same fields under the same conditions (the two images of one state are one format)"),
        ("tautologies", lambda fa: generic_lints.tautologies(fa, ('sampling/',)), 2, "no comparison / assignment / min-max with two identical operands"),
        ("random decisions", S.varopt_decisions, 1, "the random decisions of the VarOpt delete-slot choice (keep the single M candidate with probability (num_cands - 1) * w_M / wt_cands) equal the reviewed closed forms"),
        ("hazards", lambda fa: hazard_lints.hazards(fa, ('sampling/',)), 2, "no 64-bit value silently narrowed at a call of a library function, no numeric_limits<floating>::min() as a lowest value, no random engine constructed inside a loop, no read of a moved-from parameter, no unguarded unsigned `x - c` loop bound (reviewed instances in spec/hazards.json)"),
        ("duplicate operands", lambda fa: generic_lints.duplicate_conjuncts(fa, ('sampling/',)), 2, "no logical chain tests the same operand twice"),
        ("vacuous loops", lambda fa: generic_lints.vacuous_loops(fa, ('sampling/',)), 2, "no counted loop whose bound was just reset to its start value"),
        ("structural triggers", lambda fa: triggers.obligations(fa, ["var_opt_sketch"]), 18, "the comparisons that decide when to compress / grow / downsample keep their reviewed boundary (operator and constants)"),
    ):
        o = f(facts)
        obs += o
        rules.append({"rule": name, "instances": len([x for x in o if x["status"] != "info"]), "min": mn, "text": text})
    return {
        "level": "other", "rules": rules, "obligations": obs,
        "explanation": "Bookkeeping and dispatch clauses of the VarOpt sketch and union decided from the typed AST on every path: invalid weights rejected before any state change, n counted exactly once per accepted item, the light / heavy dispatch conditions, which weight each region reports through the iterators, the sample-count formula, the union's accounting of n, couplings and reset completeness. Decides necessary conditions only; does NOT decide conservation of total weight as arithmetic, inclusion of all heavy items, bounds, or unbiasedness (distributional).",
        "assumptions": ["anchor names: update / update_light / update_heavy_* / merge_items", "only instantiations present in drivers/ are analysed"],
    }
