"""C13 tuple sketches keep theta-sketch keys and exact per-key summaries (DESIGN.md section 5 C13)."""
import theta_rules as T
import tuple_rules as U
import chains
import generic_lints
import hazard_lints
import c19_rules
import twins


def run(facts, tier):
    obs, rules = [], []
    for name, f, mn, text in (
        ("key chains", lambda fa: chains.obligations(fa, ["tuple"], [("theta", "tuple")]), 20, "every typed update overload of the Tuple sketch canonicalises and hashes its key exactly like the Theta sketch and the cross-language contract"),
        ("policy discipline", U.policy_discipline, 2, "first sight: create + one policy update + insert; repeat: one policy update of the stored summary; filter keeps entries satisfying the predicate"),
        ("intersection rebuild", U.intersection_rebuild, 1, "matched entries moved out of the table are always re-inserted"),
        ("screens", lambda fa: T.screens(fa, ("theta/", "tuple/")), 9, "keys obey the strict Theta screens"),
        ("early stops", T.early_breaks, 5, "ordered-only shortcuts guarded by the right input"),
        ("inferred emptiness", T.inferred_emptiness, 5, "a result may be flagged empty because it has no entries only when theta == MAX (truth table over source flag, no entries, estimation mode): an estimation-mode result without entries is not empty"),
        ("result claims", T.result_claims, 4, "on every structured path to the result of union / intersection / A-not-B: the ordered flag implies sorted entries (truth assignments consistent with the path), and the union result passes the trim to the nominal size after being filled"),
        ("ordered flag", T.ordered_flag_validity, 3, "a compact sketch that claims is_ordered_ has sorted entries: whenever the flag becomes true for an unordered source the guarded std::sort runs (truth table over other.is_ordered() x ordered)"),
        ("union reset", T.builder_reset, 2, "reset() restores the starting theta; the union's cached theta is re-read after the table reset"),
        ("theta writes", T.theta_writes, 5, "theta monotone"),
        ("duplicates/emptiness", T.emptiness_and_duplicates, 3, "insert only after a failed find (Theta and Tuple update paths)"),
        ("reset completeness", lambda fa: c19_rules.reset_completeness(fa, ['update_tuple_sketch','theta_update_sketch_base','tuple_union','theta_union_base']), 8, "every field a mutator modifies is re-initialised by reset() (a reused object equals a fresh one); reviewed exceptions are configuration fields"),
        ("delegations", lambda fa: generic_lints.unconditional_delegations(fa, ('theta/', 'tuple/')), 2, "wrappers that only hand an operation to a member object still do so unconditionally (spec/delegations.json)"),
        ("tautologies", lambda fa: generic_lints.tautologies(fa, ('theta/', 'tuple/')), 2, "no comparison / assignment / min-max with two identical operands, no if-else with identical arms"),
        ("hazards", lambda fa: hazard_lints.hazards(fa, ('theta/', 'tuple/')), 2, "no 64-bit value silently narrowed at a call of a library function, no numeric_limits<floating>::min() as a lowest value, no random engine constructed inside a loop, no read of a moved-from parameter, no unguarded unsigned `x - c` loop bound (reviewed instances in spec/hazards.json)"),
        ("duplicate operands", lambda fa: generic_lints.duplicate_conjuncts(fa, ('theta/', 'tuple/')), 2, "no logical chain tests the same operand twice (copy-paste of the wrong peer)"),
        ("moves from lvalue operands", lambda fa: generic_lints.moves_from_lvalue_operands(fa, ['tuple', 'theta']), 1, "in the lvalue instantiation of a forwarding-reference operand nothing is std::move-d out of the operand (conditional_forward copies there): a sketch passed to be read keeps its items / summaries"),
        ("forwarding peers", lambda fa: generic_lints.forwarding_peers(fa, ('theta/', 'tuple/')), 18, "one-statement typed overloads forward to an overload of their own name, never to the head of a sibling family (wrong peer)"),
        ("overload twins", lambda fa: twins.overload_twins(fa, ('tuple/', 'theta/')), 1, "const& and && overloads of one operation have identical bodies modulo std::move/forward"),
    ):
        o = f(facts)
        obs += o
        rules.append({"rule": name, "instances": len([x for x in o if x["status"] != "info"]), "min": mn, "text": text})
    return {
        "level": "other", "rules": rules, "obligations": obs,
        "explanation": "The Theta key rules (strict screens, monotone theta, guarded shortcuts, duplicate suppression) are decided on the shared base code that the Tuple instantiations use; in addition: canonicalisation chains of all Tuple update overloads equal those of the Theta sketch (computed from types and resolved callees), the update applies the policy exactly once per branch to the right operands, intersection always rebuilds its table from the entries it moved out, filter keeps the un-negated predicate. Does not decide equality of each summary with the fold of all values.",
        "assumptions": ["spec/canonical.json is the reviewed cross-language contract", "only instantiations present in drivers/ are analysed"],
    }
