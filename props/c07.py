"""C07 quantile sketches: weights, extremes, coherent answers (DESIGN.md section 5 C07): structural clauses."""
import validators
import quantile_rules as Q
import cowrite
import generic_lints
import hazard_lints
import predicates
import triggers
import coin_rules


def run(facts, tier):
    obs, rules = [], []
    for name, f, mn, text in (
        ("iterators", lambda fa: Q.iterator_rules(fa, ("kll/", "req/", "quantiles/", "density/")), 8, "iterator constructors establish what operator++ maintains: level/weight coupled, empty levels skipped the same way"),
        ("query guards", Q.query_guards, 18, "every query is dominated by the empty check that throws; get_quantile by the rank range check"),
        ("cache invalidation", Q.cache_invalidation, 9, "every public mutator invalidates the cached sorted view on every data-modifying path"),
        ("compaction triggers", Q.compaction_triggers, 2, "compaction triggers include the capacity boundary"),
        ("levels grow only", lambda fa: [o for o in Q.level_growth(fa) if not o["key"].startswith("density_sketch")], 4, "the vector of levels / compactors only grows in mutators; no resize/erase/clear can drop levels with their items"),
        ("couplings", lambda fa: cowrite.obligations(fa, ['kll_sketch', 'req_sketch', 'req_compactor', 'quantiles_sketch']), 10, "fields that every mutator updates together (counters, extremes, cached values) are still updated together"),
        ("emptiness predicate support", lambda fa: predicates.obligations(fa, ['kll_sketch','req_sketch','quantiles_sketch']), 3, "the emptiness predicate still consults every field it depended on in the reviewed tree (spec/predicates.json)"),
        ("tautologies", lambda fa: generic_lints.tautologies(fa, ('kll/', 'req/', 'quantiles/', 'common/')), 2, "no comparison / assignment / min-max with two identical operands, no if-else with identical arms"),
        ("kll sorted run", coin_rules.sorted_run_is_halved_run, 2, "the range KLL compaction sorts before halving level 0 is exactly the run it halves (update path and merge path)"),
        ("hazards", lambda fa: hazard_lints.hazards(fa, ('kll/', 'req/', 'quantiles/', 'common/')), 2, "no 64-bit value silently narrowed at a call of a library function, no numeric_limits<floating>::min() as a lowest value, no random engine constructed inside a loop, no read of a moved-from parameter, no unguarded unsigned `x - c` loop bound (reviewed instances in spec/hazards.json)"),
        ("duplicate operands", lambda fa: generic_lints.duplicate_conjuncts(fa, ('kll/', 'req/', 'quantiles/', 'common/')), 2, "no logical chain tests the same operand twice (copy-paste of the wrong peer)"),
        ("state-writing shortcuts", lambda fa: generic_lints.state_writing_shortcuts(fa, ['kll_sketch','req_sketch','req_compactor','quantiles_sketch']), 1, "no merge / update branch writes fields and returns early past the steps all other paths run (compaction loop, totals, cached counts); one reviewed exception"),
        ("post-increment", lambda fa: generic_lints.post_increment_semantics(fa, ('kll/', 'req/', 'quantiles/')), 1, "it++ copies *this, advances once and returns the copy by value"),
        ("release guards", lambda fa: generic_lints.conditional_release_before_overwrite(fa, ('kll/', 'req/', 'quantiles/')), 1, "an owning pointer field that is overwritten had its old object released unconditionally or under the existence test of that very object (any other guard leaks it on the other paths)"),
        ("invalidated pointers", lambda fa: generic_lints.invalidated_pointers(fa, ('kll/', 'req/', 'quantiles/')), 1, "no pointer / iterator obtained from begin() / end() / data() of an object is used after a call on that object that can move its storage (ensure_space, grow, resize ...)"),
        ("moves from lvalue operands", lambda fa: generic_lints.moves_from_lvalue_operands(fa, ['kll', 'req', 'quantiles']), 1, "in the lvalue instantiation of a forwarding-reference operand nothing is std::move-d out of the operand (conditional_forward copies there): a sketch passed to be read keeps its items / summaries"),
        ("narrow shifts", lambda fa: generic_lints.narrow_variable_shift(fa, ('kll/', 'req/', 'quantiles/')), 1, "no count << level evaluated in 32 bits and only then widened to 64 bits (weights of large merged sketches wrap at 2^32)"),
        ("argument checkers", lambda fa: validators.checker_obligations(fa, ["kll", "req", "quantiles"]), 8, "the argument / image checkers of the quantile families reject exactly the reviewed ranges (spec/checkers.json)"),
        ("req merge runs", coin_rules.req_merge_ranges, 2, "REQ compactor merge hands std::inplace_merge exactly the old run and the appended run in both buffer layouts (exact pointer arithmetic with hra_ fixed)"),
        ("unsigned clamp", coin_rules.unsigned_field_minus_param, 1, "the REQ compaction schedule is clamped to the number of sections (unsigned difference cannot wrap)"),
        ("req region", coin_rules.req_region, 2, "REQ compaction range touches the end of the live region that compact() moves, so shrinking num_items_ removes exactly the compacted items"),
        ("structural triggers", lambda fa: triggers.obligations(fa, ['kll_sketch', 'kll_helper', 'quantiles_sketch', 'req_compactor', 'req_sketch']), 39, "the comparisons that decide when to resize / rebuild / compact / purge / promote keep their reviewed boundary (operator and constants)"),
        ("level capacity", Q.level_capacity, 3, "every quantiles level that starts empty is reserved to k before it becomes part of a sketch (zip_buffer takes k from the capacity)"),
    ):
        o = f(facts)
        obs += o
        rules.append({"rule": name, "instances": len([x for x in o if x["status"] != "info"]), "min": mn, "text": text})
    return {
        "level": "other", "rules": rules, "obligations": obs,
        "explanation": "Structural clauses of the quantile sketches decided on every path in the typed AST: iterator positioning/weight coupling agreement between constructor and operator++ (KLL, REQ, classic, density as sibling), query guards dominate queries, structured dataflow proves every public mutator (update, merge, assignments) invalidates the cached sorted view on every path that modifies data, compaction triggers include the boundary. Does not decide weight-sum equality as arithmetic, space bounds in general, monotonicity of rank/quantile.",
        "assumptions": ["anchors: sorted_view_ / reset_sorted_view, iterator classes named const_iterator", "only instantiations present in drivers/ are analysed"],
    }
