"""C08 unbiased compaction (DESIGN.md section 5 C08; A9): coin clauses."""
import quantile_rules
import coin_rules as K
import generic_lints
import hazard_lints
import cowrite


def run(facts, tier):
    obs, rules = [], []
    for name, f, mn, text in (
        ("coin dataflow", K.coin_sources, 15, "surviving parity flows from random_bit() only; one draw per halving, independent of outcomes; stride 2 over an even run"),
        ("stride offsets", K.stride_offsets, 1, "a stride-s sub-sampling loop starts at an offset drawn uniformly from [0, s) with the library engine"),
        ("req region", K.req_region, 2, "REQ compaction range touches the end of the live region that compact() moves (low==0 in HRA, high==num_items_ in LRA)"),
        ("req exact band", K.req_exact_band, 1, "REQ rank bounds collapse to the estimate only inside the never-compacted part of level 0 (n <= k * INIT_NUM_SECTIONS)"),
        ("kll sorted run", K.sorted_run_is_halved_run, 2, "the range KLL compaction sorts before halving level 0 is exactly the run it halves (halving an unsorted run is biased)"),
        ("req merge runs", K.req_merge_ranges, 2, "a REQ compactor merge leaves the level sorted in both buffer layouts (std::inplace_merge gets exactly the old run and the appended run): ranks are computed over sorted levels"),
        ("view invalidation", quantile_rules.cache_invalidation, 10, "every operation that changes the retained items drops the cached sorted view: estimates are computed from the current contents, not from a view cached before a merge"),
        ("unsigned clamp", K.unsigned_field_minus_param, 1, "every caller of a function that subtracts a parameter from an unsigned field passes min(x, field): the REQ compaction schedule is clamped to the number of sections"),
        ("sortedness couplings", lambda fa: cowrite.obligations(fa, ['kll_sketch', 'req_compactor', 'quantiles_sketch']), 8, "an item placed into level 0 / the buffer clears the sortedness flag that lets compaction skip sorting (halving an unsorted run is biased)"),
        ("merge peers", K.merge_peers, 1, "merge combines error parameters with the same field of the other sketch"),
        ("tautologies", lambda fa: generic_lints.tautologies(fa, ('kll/', 'req/', 'quantiles/')), 2, "no comparison / assignment / min-max with two identical operands, no if-else with identical arms"),
        ("hazards", lambda fa: hazard_lints.hazards(fa, ('kll/', 'req/', 'quantiles/')), 2, "no 64-bit value silently narrowed at a call of a library function, no numeric_limits<floating>::min() as a lowest value, no random engine constructed inside a loop, no read of a moved-from parameter, no unguarded unsigned `x - c` loop bound (reviewed instances in spec/hazards.json)"),
        ("duplicate operands", lambda fa: generic_lints.duplicate_conjuncts(fa, ('kll/', 'req/', 'quantiles/')), 2, "no logical chain tests the same operand twice (copy-paste of the wrong peer)"),
        ("narrow shifts", lambda fa: generic_lints.narrow_variable_shift(fa, ('kll/', 'req/', 'quantiles/')), 1, "no count << level evaluated in 32 bits and only then widened to 64 bits (weights of large merged sketches wrap at 2^32)"),
    ):
        o = f(facts)
        obs += o
        rules.append({"rule": name, "instances": len([x for x in o if x["status"] != "info"]), "min": mn, "text": text})
    return {
        "level": "other", "rules": rules, "obligations": obs,
        "explanation": "Def-use rules over the halving primitives (KLL randomly_halve_up/down, classic zip_buffer, REQ compact/promote_evens_or_odds): the start parity of the survivor cursor is defined from random_utils::random_bit() and nothing else, every definition of REQ's coin_ field is a fresh bit, its own complement or a copy, exactly one draw per compaction on every path with a branch condition that does not test the coin, survivors taken with stride 2 from a run checked even. Decides the necessary condition that the surviving half is chosen by the fair bit and that the flip count is outcome-independent; does not decide the published error bounds or their coverage (statistical).",
        "assumptions": ["anchor: random_utils::random_bit", "only instantiations present in drivers/ are analysed"],
    }
