"""C18 EBPPS: thin structural clauses (bookkeeping, closed forms, merge accounting); see rules/sampling_rules.py."""
from vlib.core import VERIF
import json, os
import a4_twin
import sampling_rules as S
import generic_lints
import hazard_lints
import triggers
import c19_rules
import predicates
import dead_reads


def run(facts, tier):
    obs, rules = [], []
    for name, f, mn, text in (
        ("ebpps bookkeeping", S.ebpps, 12, "weight validation first; new cumulative weight / maximum weight / rho = min(1/wt_max, k/cum_wt) computed from the old state and stored unconditionally with n; merge adds n and cumulative weight, keeps the larger maximum weight and the smaller k, always replays the lighter sketch into the heavier; the sample is every full item plus the partial item with probability frac(c)"),
        ("merge decisions", S.ebpps_merge_decisions, 1, "the three random decisions of ebpps_sample::merge (which partial item is promoted / kept, with which closed-form probability) equal the reviewed ones"),
        ("partial shuffle", S.partial_shuffle, 1, "the partial Fisher-Yates pass of subsample() draws the partner of position i from the positions not yet fixed: i + random(len - i)"),
        ("reset completeness", lambda fa: c19_rules.reset_completeness(fa, ['ebpps_sketch', 'ebpps_sample']), 6, "every field a mutator modifies is re-initialised by reset() (reviewed exceptions: scratch sample, configured k)"),
        ("emptiness predicate support", lambda fa: predicates.obligations(fa, ['ebpps_sketch']), 1, "is_empty keeps its reviewed support"),
        ("reader dead-reads", lambda fa: [o for o in dead_reads.obligations(fa) if "ebpps" in o["key"]], 6, "every field the EBPPS readers take from the image reaches the restored sketch on every accepting path"),
        ("serializer twins", lambda fa: [o for o in a4_twin.obligations(fa, set(json.load(open(os.path.join(VERIF, "spec", "twin_armed.json")))["armed"])) if "ebpps" in o["key"]], 2, "stream and byte writers of the EBPPS sketch and sample emit the same fields under the same conditions (the two images of one state are one format)"),
        ("tautologies", lambda fa: generic_lints.tautologies(fa, ('sampling/',)), 2, "no comparison / assignment / min-max with two identical operands"),
        ("hazards", lambda fa: hazard_lints.hazards(fa, ('sampling/',)), 2, "no 64-bit value silently narrowed at a call of a library function, no numeric_limits<floating>::min() as a lowest value, no random engine constructed inside a loop, no read of a moved-from parameter, no unguarded unsigned `x - c` loop bound (reviewed instances in spec/hazards.json)"),
        ("duplicate operands", lambda fa: generic_lints.duplicate_conjuncts(fa, ('sampling/',)), 2, "no logical chain tests the same operand twice"),
        ("structural triggers", lambda fa: triggers.obligations(fa, ['ebpps_sketch']), 7, "the comparisons that decide when to compress / grow / downsample keep their reviewed boundary (operator and constants)"),
    ):
        o = f(facts)
        obs += o
        rules.append({"rule": name, "instances": len([x for x in o if x["status"] != "info"]), "min": mn, "text": text})
    return {
        "level": "other", "rules": rules, "obligations": obs,
        "explanation": "Bookkeeping clauses of the EBPPS sketch decided from the typed AST: invalid weights rejected before any state change, the closed forms for the new cumulative weight, maximum weight and rho, their unconditional storage together with n, the accounting of merge (n, cumulative weight, larger maximum weight, smaller k) and its lighter-into-heavier orientation, assembly of the returned sample (full items plus the partial item with probability frac(c)). Does NOT decide the value of c after down-sampling (the fractional case analysis), nor inclusion probabilities (distributional).",
        "assumptions": ["anchor names: internal_update / internal_merge / merge / get_sample", "only instantiations present in drivers/ are analysed"],
    }
